"""C01: linear count-min -- true <= estimate <= collision bound on every history.

Engine K.  (1) Induction: one step of the real _add_linear / _merge_linear from an arbitrary table satisfying the
invariant LB (every counter of a tracked key >= min(true, 2^32-1)) and UB (every cell <= min(sum of the true counts of
the keys mapping to it, 2^32-1)) re-establishes LB and UB for ghost-updated truths; _query_linear returns the minimum
of the key's counters.  LB and UB are the property itself, so this covers histories of any length and merge trees of
any shape.  (2) Bounded histories from empty sketches (finder): all skeletons of K operations over two sketches and
three keys with symbolic columns and multiplicities; counterexamples are replayed through the public API."""
import os
import sys
import time

sys.path.insert(0, os.path.dirname(os.path.dirname(os.path.abspath(__file__))))
import warnings

warnings.filterwarnings("ignore")
import z3
from engine import common, cmh, logh
from engine.kit import KeyBook, cm_est, zx, ev, MAX32, select_col, umin
from engine.nbsym import Executor, State, types, Val, mk_int

PID = "C01"
M64 = z3.BitVecVal(MAX32, 64)


def cap(x):
    return z3.If(z3.UGT(x, M64), M64, x)


class Ghost:
    """true count f of a tracked key and per-cell sums S of the true counts of all keys mapping to the cell"""

    def __init__(self, name, width, depth):
        self.f = z3.BitVec(f"{name}_f", 64)
        self.S = [[z3.BitVec(f"{name}_S_{r}_{c}", 64) for c in range(width)] for r in range(depth)]
        self.range = [z3.ULT(self.f, 1 << 44)] + [z3.ULT(s, 1 << 44) for row in self.S for s in row]


def inv(heap, sk, colk, f, S):
    """LB for the tracked key and UB for every cell"""
    w, d = sk.width, sk.depth
    cl = []
    for r in range(d):
        row = heap[sk.cms.sid][r * w:(r + 1) * w]
        cl.append(z3.UGE(zx(select_col(row, colk[r]), 64), cap(f)))
        for c in range(w):
            cl.append(z3.ULE(zx(row[c], 64), cap(S[r][c])))
    return z3.And(*cl)


def ob_add_preserves(width, depth, same_key, timeout_ms):
    stats = common.Stats()
    book = KeyBook()
    ex = Executor(stubs={"fasthash64": book.stub()})
    st = State()
    sk = cmh.SymCM(st, "s", 32, width, depth)
    added, aid = book.new_key("added")
    colj = cmh.keycols(book, aid, width, depth)
    if same_key:
        colk = colj
    else:
        tracked, tid = book.new_key("tracked", 2)
        colk = cmh.keycols(book, tid, width, depth)
    g = Ghost("g", width, depth)
    vt = z3.BitVec("v_true", 64)  # multiplicity given to add(); the wrapper passes min(v_true, 2^32-1) to the kernel
    v32 = z3.Extract(31, 0, cap(vt))
    pre = dict(st.heap)
    post = cmh.add_linear(ex, st, sk, added, v32)
    f2 = g.f + vt if same_key else g.f
    S2 = [[g.S[r][c] + z3.If(colj[r] == c, vt, z3.BitVecVal(0, 64)) for c in range(width)] for r in range(depth)]
    assume = list(post.pc) + book.range_constraints() + g.range + [z3.ULE(vt, 1 << 40), inv(pre, sk, colk, g.f, g.S)]
    # the tracked key contributes to its own cells
    assume += [z3.UGE(select_col(g.S[r], colk[r]), g.f) for r in range(depth)]
    goal = inv(post.heap, sk, colk, f2, S2)
    r, m = common.z3check(assume + [z3.Not(goal)], timeout_ms, stats, label=f"_add_linear preserves LB/UB {depth}x{width} tracked{'==' if same_key else '!='}added")
    funcs = sorted(ex.funcs_encoded)
    if r == "unsat":
        return {"status": "proved", "stats": stats.as_dict(), "funcs": funcs}
    if r != "sat":
        return {"status": "unknown", "stats": stats.as_dict(), "funcs": funcs, "note": f"z3 {r}"}
    cti = {"table": [ev(m, c) for c in pre[sk.cms.sid]], "col_added": [ev(m, c) for c in colj], "col_tracked": [ev(m, c) for c in colk],
           "f": ev(m, g.f), "v_true": ev(m, vt), "S": [[ev(m, s) for s in row] for row in g.S]}
    return {"status": "cti", "stats": stats.as_dict(), "funcs": funcs, "cti": cti,
            "note": "induction step fails (counterexample to induction, pre-state possibly unreachable): " + str(cti)[:300]}


def ob_merge_preserves(width, depth, timeout_ms):
    stats = common.Stats()
    book = KeyBook()
    ex = Executor(stubs={"fasthash64": book.stub()})
    st = State()
    a = cmh.SymCM(st, "a", 32, width, depth)
    b = cmh.SymCM(st, "b", 32, width, depth)
    tracked, tid = book.new_key("tracked")
    colk = cmh.keycols(book, tid, width, depth)
    ga, gb = Ghost("ga", width, depth), Ghost("gb", width, depth)
    pre = dict(st.heap)
    post = cmh.merge_linear(ex, st, a, b)
    S2 = [[ga.S[r][c] + gb.S[r][c] for c in range(width)] for r in range(depth)]
    assume = list(post.pc) + book.range_constraints() + ga.range + gb.range + [inv(pre, a, colk, ga.f, ga.S), inv(pre, b, colk, gb.f, gb.S)]
    goals = [("merged sketch satisfies LB/UB for the summed truths", inv(post.heap, a, colk, ga.f + gb.f, S2)),
             ("argument sketch unchanged", z3.And(*[x == y for x, y in zip(post.heap[b.cms.sid], pre[b.cms.sid])] + [x == y for x, y in zip(post.heap[b.nar.sid], pre[b.nar.sid])])),
             ("n_added and n_records are summed", z3.And(post.heap[a.nar.sid][0] == pre[a.nar.sid][0] + pre[b.nar.sid][0], post.heap[a.nar.sid][1] == pre[a.nar.sid][1] + pre[b.nar.sid][1]))]
    for i, (kind, cond) in enumerate(cmh.safety_goals(post)):
        goals.append((f"safety[{i}] {kind}", z3.Not(cond)))
    funcs = sorted(ex.funcs_encoded)
    r, info = cmh.first_failure(assume, goals, timeout_ms, stats, f"_merge_linear {depth}x{width}")
    if r is None:
        return {"status": "proved", "stats": stats.as_dict(), "funcs": funcs}
    if r == "unknown":
        return {"status": "unknown", "stats": stats.as_dict(), "funcs": funcs, "note": f"z3 unknown on {info}"}
    name, m = info
    cti = {"clause": name, "a": [ev(m, c) for c in pre[a.cms.sid]], "b": [ev(m, c) for c in pre[b.cms.sid]], "col_tracked": [ev(m, c) for c in colk], "fa": ev(m, ga.f), "fb": ev(m, gb.f)}
    return {"status": "cti", "stats": stats.as_dict(), "funcs": funcs, "cti": cti, "note": "induction step fails for merge: " + str(cti)[:300]}


def ob_add_cellspec(width, depth, timeout_ms):
    """deep shapes, step 1: with _query_linear summarised by its specification (proved at the same shape by the query-spec
    obligation: it returns est = the minimum of the key's counters and records the key's columns in `buckets`), the real
    _add_linear equals the cell-level specification  cell' = max(cell, min(est + v, 2^32-1)) at the key's column,
    unchanged elsewhere; n_added += the capped increment"""
    stats = common.Stats()
    book = KeyBook()
    est = z3.BitVec("est", 32)
    qcalls = []

    def q_stub(ex, state, args, sig):
        cms_, buckets_, w_, d_, umax_, key_ = args
        kid_ = book.register(key_)
        cells_ = list(state.heap[buckets_.sid])
        for r in range(depth):
            cells_[r] = zx(book.colterm(kid_, r, width), 64)
        state.heap[buckets_.sid] = tuple(cells_)
        qcalls.append(kid_)
        return [(state, Val(types.uint32, est))]
    ex = Executor(stubs={"fasthash64": book.stub(), "_query_linear": q_stub})
    st = State()
    sk = cmh.SymCM(st, "s", 32, width, depth)
    key, kid = book.new_key("key")
    v = z3.BitVec("value", 32)
    pre = dict(st.heap)
    post = cmh.add_linear(ex, st, sk, key, v)
    colk = cmh.keycols(book, kid, width, depth)
    exp = z3.If(z3.UGT(zx(est, 64) + zx(v, 64), M64), z3.BitVecVal(MAX32, 32), est + v)
    spec = []
    for r in range(depth):
        for c in range(width):
            oldc = pre[sk.cms.sid][r * width + c]
            spec.append(post.heap[sk.cms.sid][r * width + c] == z3.If(z3.And(colk[r] == c, z3.ULT(oldc, exp)), exp, oldc))
    # the summarised query returns a lower bound of the key's counters (it returns their minimum: query-spec obligation)
    lower = [z3.ULE(est, select_col(pre[sk.cms.sid][r * width:(r + 1) * width], colk[r])) for r in range(depth)]
    funcs = sorted(ex.funcs_encoded)
    if not (len(qcalls) == 1 and qcalls[0] == kid):
        return {"status": "cti", "stats": stats.as_dict(), "funcs": funcs, "note": "_query_linear is not called exactly once on the key"}
    goals = [(f"row {r}", z3.And(*spec[r * width:(r + 1) * width])) for r in range(depth)] + [(f"safety {i}", z3.Not(cond)) for i, (kind, cond) in enumerate(cmh.safety_goals(post))]
    for name, g in goals:
        # each row of the table is written by its own loop iteration: one query per row
        r, m = common.z3check(list(post.pc) + book.range_constraints() + lower + [z3.Not(g)], timeout_ms, stats, label=f"_add_linear (query summarised) == cell-level spec, {depth}x{width}, {name}")
        if r != "unsat":
            return {"status": "unknown" if r != "sat" else "cti", "stats": stats.as_dict(), "funcs": funcs, "note": f"{r} on {name}: _add_linear differs from its cell-level specification at {depth}x{width}"}
    return {"status": "proved", "stats": stats.as_dict(), "funcs": funcs}


def ob_add_row_lemma(width, same_key, timeout_ms):
    """deep shapes, step 2 (pure logic, any depth): for ONE row, the cell-level specification preserves LB and UB, given
    only that est is a lower bound of the added key's counter in this row and (tracked == added) est >= min(f, 2^32-1),
    which LB gives for every row"""
    stats = common.Stats()
    row = [z3.BitVec(f"cell{c}", 32) for c in range(width)]
    bits = max(1, (width - 1).bit_length())
    colj = z3.BitVec("colj", bits)
    colk = colj if same_key else z3.BitVec("colk", bits)
    est, v_true, f = z3.BitVec("est", 32), z3.BitVec("v_true", 64), z3.BitVec("f", 64)
    S = [z3.BitVec(f"S{c}", 64) for c in range(width)]
    v32 = z3.Extract(31, 0, cap(v_true))
    exp = z3.If(z3.UGT(zx(est, 64) + zx(v32, 64), M64), z3.BitVecVal(MAX32, 32), est + v32)
    new = [z3.If(z3.And(colj == c, z3.ULT(row[c], exp)), exp, row[c]) for c in range(width)]
    rng = [z3.ULT(colj, width), z3.ULT(colk, width)] if width < (1 << bits) else []
    assume = rng + [z3.ULE(v_true, 1 << 40), z3.ULT(f, 1 << 44)] + [z3.ULT(s_, 1 << 44) for s_ in S]
    assume += [z3.ULE(est, select_col(row, colj)), z3.UGE(zx(select_col(row, colk), 64), cap(f))] + [z3.ULE(zx(row[c], 64), cap(S[c])) for c in range(width)]
    assume += [z3.UGE(select_col(S, colk), f)]
    if same_key:
        assume.append(z3.UGE(zx(est, 64), cap(f)))
    f2 = f + v_true if same_key else f
    S2 = [S[c] + z3.If(colj == c, v_true, z3.BitVecVal(0, 64)) for c in range(width)]
    goal = z3.And(z3.UGE(zx(select_col(new, colk), 64), cap(f2)), *[z3.ULE(zx(new[c], 64), cap(S2[c])) for c in range(width)])
    r, m = common.z3check(assume + [z3.Not(goal)], timeout_ms, stats, label=f"row lemma: cell-level spec preserves LB/UB, width {width}, tracked {'==' if same_key else '!='} added")
    if r == "unsat":
        return {"status": "proved", "stats": stats.as_dict(), "funcs": []}
    return {"status": "unknown" if r != "sat" else "cti", "stats": stats.as_dict(), "funcs": [], "note": f"{r}: the cell-level specification does not imply the invariant step"}


def ob_merge_cellspec(width, depth, timeout_ms):
    """deep shapes: _merge_linear == min(a+b, 2^32-1) per cell, argument untouched, bookkeeping summed; with the per-cell
    lemma (pure logic) this preserves LB/UB"""
    from checks import c09
    stats = common.Stats()
    ex = Executor()
    st = State()
    a = cmh.SymCM(st, "a", 32, width, depth)
    b = cmh.SymCM(st, "b", 32, width, depth)
    pre = dict(st.heap)
    post = cmh.merge_linear(ex, st, a, b)
    goal = z3.And(*[r_ == c09.sat_add(x, y) for r_, x, y in zip(post.heap[a.cms.sid], pre[a.cms.sid], pre[b.cms.sid])] + [x == y for x, y in zip(post.heap[b.cms.sid], pre[b.cms.sid])])
    r, m = common.z3check(list(post.pc) + [z3.Not(goal)], timeout_ms, stats, label=f"_merge_linear == cell-wise saturating sum, {depth}x{width}")
    # per-cell lemma
    x, y = z3.BitVec("x", 32), z3.BitVec("y", 32)
    fa, fb, Sa, Sb = z3.BitVec("fa", 64), z3.BitVec("fb", 64), z3.BitVec("Sa", 64), z3.BitVec("Sb", 64)
    rr = c09.sat_add(x, y)
    lem = z3.Implies(z3.And(z3.ULT(fa, 1 << 44), z3.ULT(fb, 1 << 44), z3.ULT(Sa, 1 << 44), z3.ULT(Sb, 1 << 44)),
                     z3.And(z3.Implies(z3.And(z3.UGE(zx(x, 64), cap(fa)), z3.UGE(zx(y, 64), cap(fb))), z3.UGE(zx(rr, 64), cap(fa + fb))),
                            z3.Implies(z3.And(z3.ULE(zx(x, 64), cap(Sa)), z3.ULE(zx(y, 64), cap(Sb))), z3.ULE(zx(rr, 64), cap(Sa + Sb)))))
    r2, _ = common.z3check([z3.Not(lem)], timeout_ms, stats, label="cell lemma: saturating sum preserves LB/UB")
    funcs = sorted(ex.funcs_encoded)
    if r == "unsat" and r2 == "unsat":
        return {"status": "proved", "stats": stats.as_dict(), "funcs": funcs}
    if r == "sat":
        cex = {"kind": "linear-merge", "width": width, "depth": depth, "clause": "cell-wise saturating sum", "a": [ev(m, c) for c in pre[a.cms.sid]], "b": [ev(m, c) for c in pre[b.cms.sid]], "nar_a": [0, 0], "nar_b": [0, 0], "col_key": [0] * depth}
        return {"status": "cex", "stats": stats.as_dict(), "funcs": funcs, "cex": cex, "replay": c09.replay_linear_merge(cex), "finding_key": "linear-merge-cellspec"}
    return {"status": "unknown", "stats": stats.as_dict(), "funcs": funcs, "note": f"{r},{r2}"}


def ob_query_spec(width, depth, timeout_ms):
    """_query_linear returns min_r cms[r][col_r(key)], records the columns in `buckets`, leaves the table alone; and the
    property's bounds follow from LB/UB (pure logic)."""
    stats = common.Stats()
    book = KeyBook()
    ex = Executor(stubs={"fasthash64": book.stub()})
    st = State()
    sk = cmh.SymCM(st, "s", 32, width, depth)
    key, kid = book.new_key("key")
    colk = cmh.keycols(book, kid, width, depth)
    pre = dict(st.heap)
    post, rv = cmh.query_linear(ex, st, sk, key)
    g = Ghost("g", width, depth)
    est = cm_est(pre, sk.cms, colk)
    ub = None
    for r in range(depth):
        s = select_col(g.S[r], colk[r])
        ub = s if ub is None else umin(s, ub)
    goals = [("returns the minimum of the key's counters", rv.t == est),
             ("table unchanged", z3.And(*[x == y for x, y in zip(post.heap[sk.cms.sid], pre[sk.cms.sid])])),
             ("buckets[r] = column of the key in row r", z3.And(*[post.heap[sk.bk.sid][r] == zx(colk[r], 64) for r in range(depth)])),
             ("LB and UB imply min(true,2^32-1) <= estimate <= min(min_r S_r, 2^32-1)",
              z3.Implies(inv(pre, sk, colk, g.f, g.S), z3.And(z3.UGE(zx(rv.t, 64), cap(g.f)), z3.ULE(zx(rv.t, 64), cap(ub))))),
             ("collision-free in one row => exact",
              z3.Implies(z3.And(inv(pre, sk, colk, g.f, g.S), z3.Or(*[select_col(g.S[r], colk[r]) == g.f for r in range(depth)])), zx(rv.t, 64) == cap(g.f)))]
    for i, (kind, cond) in enumerate(cmh.safety_goals(post)):
        goals.append((f"safety[{i}] {kind}", z3.Not(cond)))
    assume = list(post.pc) + book.range_constraints() + g.range
    funcs = sorted(ex.funcs_encoded)
    r, info = cmh.first_failure(assume, goals, timeout_ms, stats, f"_query_linear {depth}x{width}")
    if r is None:
        return {"status": "proved", "stats": stats.as_dict(), "funcs": funcs}
    if r == "unknown":
        return {"status": "unknown", "stats": stats.as_dict(), "funcs": funcs, "note": f"z3 unknown on {info}"}
    name, m = info
    cex = {"kind": "linear-query", "width": width, "depth": depth, "clause": name, "table": [ev(m, c) for c in pre[sk.cms.sid]], "col_key": [ev(m, c) for c in colk]}
    return {"status": "cex", "stats": stats.as_dict(), "funcs": funcs, "cex": cex, "replay": replay(cex), "finding_key": "linear-query:" + name[:30]}


def replay_query(cex):
    import numpy as np
    w, d = cex["width"], cex["depth"]
    keys = cmh.realise_keys(w, d, [cex["col_key"]])
    if keys is None:
        return {"reproduced": False, "how": "no key for column pattern"}
    sk = cmh.cm().CountMinLinear(w, d)
    sk.cms[:] = np.array(cex["table"], dtype=np.uint32).reshape(d, w)
    before = sk.cms.copy()
    e = int(sk.query(keys[0]))
    want = min(int(before[r, cex["col_key"][r]]) for r in range(d))
    fails = []
    if e != want:
        fails.append(f"query returned {e}, minimum of the key's counters is {want}")
    if (before != sk.cms).any():
        fails.append("query modified the table")
    if [int(x) for x in sk.buckets] != list(cex["col_key"]):
        fails.append(f"buckets {list(sk.buckets)} != key's columns {cex['col_key']}")
    return {"reproduced": bool(fails), "how": "table installed via public cms[:]; CountMinLinear.query", "failed_clauses": fails}


def ob_bmc(width, depth, skel, timeout_ms, domain):
    stats = common.Stats()
    h = cmh.bmc_linear(width, depth, skel, domain=domain)
    funcs = sorted(h["ex"].funcs_encoded)
    bad = z3.Or(*[z3.Not(c) for (_t, _s, _i, c) in h["checks"]])
    r, m = common.z3check(h["assume"] + [bad], timeout_ms, stats, label=f"BMC {depth}x{width} {skel}")
    if r == "unsat":
        return {"status": "proved", "stats": stats.as_dict(), "funcs": funcs}
    if r != "sat":
        return {"status": "unknown", "stats": stats.as_dict(), "funcs": funcs, "note": f"z3 {r}"}
    cex = cmh.bmc_decode(h, m, width, depth)
    rp = cmh.replay_linear_history(cex)
    return {"status": "cex", "stats": stats.as_dict(), "funcs": funcs, "cex": cex, "replay": rp, "finding_key": "linear-history"}


def ob_bmc_witness(width, depth):
    """reachability twin for the BMC harness: a history exists in which a key's estimate strictly exceeds its true count
    (collisions are really explored) and one in which a counter reaches the ceiling."""
    stats = common.Stats()
    skel = (("add", 0), ("add", 0), ("add", 1), ("merge", 0, 1))
    h = cmh.bmc_linear(width, depth, skel, domain="boundary")
    t_last = len(skel) - 1
    e = zx(cm_est(h["st"].heap, h["sks"][0].cms, h["cols"][0]), 64)
    r1, _ = common.z3check(h["assume"] + [z3.UGT(e, h["true"][0][0]), h["true"][0][0] != 0], 60000, stats, label="BMC witness: over-estimate by collision")
    r2, _ = common.z3check(h["assume"] + [e == MAX32, z3.UGT(h["true"][0][0], M64)], 60000, stats, label="BMC witness: saturation with true count above 2^32-1")
    ok = r1 == "sat" and r2 == "sat"
    return {"status": "witness" if ok else "nowitness", "stats": stats.as_dict(), "note": None if ok else f"{r1},{r2}"}


def replay(cex):
    k = cex.get("kind")
    if k == "linear-history":
        return cmh.replay_linear_history(cex)
    if k == "linear-query":
        return replay_query(cex)
    if k == "linear-step":
        return cmh.replay_linear_step(cex)
    if k == "w":
        from engine import wrun
        return wrun.replay_generic(cex)
    if k == "ngram":
        from checks import c12
        return c12.replay(cex)
    return {"reproduced": False, "how": "unknown cex kind"}


def main():
    t0 = time.time()
    tier = common.get_tier()
    cmh.cm()
    obs = []
    if tier == "quick":
        shapes = [(1, 1), (2, 2), (3, 2), (2, 3), (3, 3)]
        bmc = [(2, 2, 3)]
        tmo = 900000
    else:
        shapes = [(w, d) for w in (1, 2, 3, 4) for d in (1, 2, 3)] + [(1, 4), (2, 4), (6, 2)]
        bmc = [(2, 2, 4), (3, 2, 3), (1, 1, 5), (2, 1, 5)]
        tmo = 1500000
    deep = [] if tier == "quick" else [(3, 4), (4, 4), (2, 6), (2, 8), (4, 8), (8, 8)]
    for (w, d) in shapes:
        for same in (True, False):
            obs.append(common.Ob(f"induction: add preserves LB/UB, {d}x{w}, tracked {'==' if same else '!='} added", ob_add_preserves, (w, d, same, tmo), hard_s=tmo / 1000 + 120,
                                 bounds={"width": w, "depth": d, "state": "arbitrary table satisfying LB/UB", "v_true": "0..2^40"}))
        obs.append(common.Ob(f"induction: merge preserves LB/UB, {d}x{w}", ob_merge_preserves, (w, d, tmo), hard_s=tmo / 1000 * 6 + 120, bounds={"width": w, "depth": d}))
        obs.append(common.Ob(f"query spec + bounds from invariant, {d}x{w}", ob_query_spec, (w, d, tmo), hard_s=tmo / 1000 * 8 + 120, bounds={"width": w, "depth": d}))
    for (w, d) in deep:
        obs.append(common.Ob(f"deep shape {d}x{w}: _add_linear == cell-level spec", ob_add_cellspec, (w, d, tmo), hard_s=tmo / 1000 + 120, bounds={"width": w, "depth": d}))
        obs.append(common.Ob(f"deep shape {d}x{w}: _merge_linear == cell-wise saturating sum (+ cell lemma)", ob_merge_cellspec, (w, d, tmo), hard_s=tmo / 1000 * 2 + 120, bounds={"width": w, "depth": d}))
        obs.append(common.Ob(f"deep shape {d}x{w}: query spec + bounds from invariant", ob_query_spec, (w, d, tmo), hard_s=tmo / 1000 * 8 + 120, bounds={"width": w, "depth": d}))
    for w in sorted(set(w for w, _ in deep)):
        for same in (True, False):
            obs.append(common.Ob(f"row lemma (any depth): cell-level spec preserves LB/UB, width {w}, tracked {'==' if same else '!='} added", ob_add_row_lemma, (w, same, tmo), hard_s=tmo / 1000 + 120, bounds={"width": w, "depth": "any"}))
    nsk = 0
    for (w, d, K) in bmc:
        for skel in cmh.skeletons(K):
            if K >= 4 and w * d >= 4 and not any(o[0] == "merge" for o in skel):
                continue   # add-only histories of this length are covered by K=3 and by the induction
            if K >= 3 and w * d >= 6 and not any(o[0] == "merge" for o in skel):
                continue
            nsk += 1
            obs.append(common.Ob(f"BMC {d}x{w} K={K} {'/'.join(o[0][0] + ''.join(map(str, o[1:])) for o in skel)}", ob_bmc, (w, d, skel, tmo, "boundary"), hard_s=tmo / 1000 + 120,
                                 bounds={"width": w, "depth": d, "K": K, "skeleton": [list(o) for o in skel]}))
    obs.append(common.Ob("witness: BMC harness reaches collisions and saturation", ob_bmc_witness, (2, 2), kind="witness", hard_s=300))
    from engine import wrun
    from checks import c12
    c12.mods()
    for L, n in ((0, None), (1, None), (3, None), (3, 1), (3, 2), (4, 2)):
        obs.append(common.Ob(f"add_ngram kernel == adds of every window: _add_ngram_linear key length {L}, ngram {'>= len (symbolic)' if n is None else n}", c12.ob_ngram, ("linear", L, n, tmo), hard_s=tmo / 1000 + 120, bounds={"key_len": L}))
    wobs, wmeta = wrun.obligations("c01", tier)
    obs += wobs
    results = common.run_obligations(obs, progress=os.environ.get("VERIF_VERBOSE") == "1")
    # induction failures (CTI) are not violations by themselves: the pre-state may be unreachable
    for o, r in zip(obs, results):
        if r.get("status") == "cti":
            r["status"] = "unknown"
    funcs = set()
    for r in results:
        funcs.update(r.get("funcs") or [])
    val = logh.validate_translator(common.get_seed(), 30 if tier == "quick" else 200)
    if val["n_mismatch"]:
        print("translator validation failed:", val["mismatches"], file=sys.stderr)
        return 2
    return common.finish(
        PID, tier, "model_checking", obs, results, t0=t0, funcs=funcs,
        bounds={"induction_shapes(width,depth)": shapes, "deep_shapes_by_decomposition(width,depth)": deep, "bmc(width,depth,K)": bmc, "bmc_skeletons": nsk, "bmc_keys": 3, "bmc_sketches": 2,
                "bmc_multiplicities": "symbolic in {0..3} u {2^32-4..2^32+2} u {2^40}", "induction_multiplicity": "0..2^40 (symbolic)",
                "ghost_totals": "< 2^44"},
        stubs=["fasthash64 -> uninterpreted; `% width` yields a fresh column < width per (key, row), memoised (same key, same columns in every sketch)",
               "CountMinLinear.add's cap min(value, 2^32-1) is modelled in the K harness and decided on the real method by the CrossHair conditions of checks/w_c12.py (add / update(dict) / update(list) / add_ngram of CountMinLinear)"],
        assumptions=["Numba lowering preserves typed-IR semantics", "prange == range for row-disjoint writes in _merge_linear",
                     "update(), add_ngram(), update_ngram() reduce to sequences of add() (C12); save/load is the identity on state (C10)"],
        outside=["shapes beyond the listed ones", "ghost totals >= 2^44", "histories longer than K are covered by the induction, not by BMC",
                 "an induction failure without a BMC counterexample is reported as inconclusive (exit 2), not as a violation"],
        explanation="LB/UB invariant proved inductive over the real add/merge kernels (any history length, any merge tree) + bounded histories from empty sketches as counterexample finder",
        validation=val, technique="symbolic execution of Numba typed IR + z3 (QF_BV): inductive invariant with ghost truths, plus bounded unrolling of operation skeletons")


if __name__ == "__main__":
    sys.exit(main())
