"""C02: HyperLogLog state depends only on the set of distinct keys (union semantics).

Engine K over hyperloglog._n_leading_zeros64, _add, _merge (typed IR, fasthash64 stubbed to an arbitrary 64-bit value
per key -- exact, because FastHash64 restricted to 8-byte keys is a bijection on 64-bit words, which the replay uses
to realise any hash value with a real key)."""
import itertools
import os
import random
import sys
import time

sys.path.insert(0, os.path.dirname(os.path.dirname(os.path.abspath(__file__))))
import warnings

warnings.filterwarnings("ignore")
import z3
from engine import common, refs
from engine.kit import mk_arr, ev, zx, umax
from engine.nbsym import Executor, State, SBytes, Val, FArr, Store, types, cast, mk_int, Unsupported

PID = "C02"
_M = {}


def H():
    if "h" not in _M:
        from sketchnu import hyperloglog
        _M["h"] = hyperloglog
    return _M["h"]


# ------------------------------------------------------------------ reference pieces
def clz_ref(x, w):
    r = z3.BitVecVal(w, 64)
    for i in range(w):
        r = z3.If(z3.Extract(i, i, x) == 1, z3.BitVecVal(w - 1 - i, 64), r)
    return r


def spec_step_term(old8, h, p, m):
    """(index, new register value) of the documented update for hash h"""
    idx = h & (m - 1)
    rank = clz_ref(z3.LShR(h, p), 64) - p + 1
    old = zx(old8, 64)
    return idx, z3.Extract(7, 0, z3.If(z3.UGT(rank, old), rank, old)), rank


class HashBook:
    def __init__(self):
        self.vals = {}
        self.calls = []

    def stub(self):
        me = self

        def hstub(ex, state, args, sig):
            key, seed = args
            ident = tuple(c.get_id() for c in key.cells) + (len(key),)
            if ident not in me.vals:
                me.vals[ident] = z3.BitVec(f"hash{len(me.vals)}", 64)
            me.calls.append((ident, z3.simplify(cast(seed, types.uint64).t)))
            return [(state, Val(types.uint64, me.vals[ident]))]

        return hstub


def new_key(name, n=1):
    return SBytes([z3.BitVec(f"{name}_{i}", 8) for i in range(n)])


def run_add(ex, st, regs, p, m, key, seed=None):
    seed = z3.BitVec("seed", 64) if seed is None else seed
    outs = ex.call_dispatcher(H()._add, st, [regs, Val(types.uint64, seed), Val(types.uint64, p), Val(types.uint64, m), key])
    outs = [(s, v) for s, v in outs if not (isinstance(v, tuple) and v and v[0] == "raise")]
    if len(outs) != 1:
        raise Unsupported(f"_add: {len(outs)} outcomes")
    return outs[0][0]


# ------------------------------------------------------------------ obligations
def ob_nlz(timeout_ms):
    stats = common.Stats()
    ex = Executor()
    x = z3.BitVec("x", 64)
    outs = ex.call_dispatcher(H()._n_leading_zeros64, State(), [Val(types.uint64, x)])
    funcs = sorted(ex.funcs_encoded)
    if len(outs) != 1:
        return {"status": "unknown", "note": f"{len(outs)} outcomes", "funcs": funcs}
    s, rv = outs[0]
    goal = [z3.Or(zx(rv.t, 64) != clz_ref(x, 64), *[c for _k, c in s.oblig])]
    r, m = common.z3check(list(s.pc) + goal, timeout_ms, stats, label="_n_leading_zeros64(x) == clz64(x) for all x")
    if r == "unsat":
        return {"status": "proved", "stats": stats.as_dict(), "funcs": funcs}
    if r != "sat":
        return {"status": "unknown", "stats": stats.as_dict(), "funcs": funcs, "note": r}
    cex = {"kind": "nlz", "x": ev(m, x)}
    return {"status": "cex", "stats": stats.as_dict(), "funcs": funcs, "cex": cex, "replay": replay(cex), "finding_key": "nlz"}


def ob_add_spec(timeout_ms):
    """_add == documented register update, functional register file, symbolic p in [7,16], symbolic hash and seed"""
    stats = common.Stats()
    hb = HashBook()
    ex = Executor(stubs={"fasthash64": hb.stub()})
    st = State()
    p = z3.BitVec("p", 64)
    m = z3.BitVecVal(1, 64) << p
    R = z3.Array("R", z3.BitVecSort(64), z3.BitVecSort(8))
    sto = Store()
    st.heap[sto.id] = R
    st.pc += [z3.UGE(p, 7), z3.ULE(p, 16)]
    regs = FArr(sto.id, types.uint8, m)
    key = new_key("k")
    seed = z3.BitVec("seed", 64)
    post = run_add(ex, st, regs, p, m, key, seed)
    funcs = sorted(ex.funcs_encoded)
    h = list(hb.vals.values())[0]
    j = z3.BitVec("j", 64)
    idx, newv, rank = spec_step_term(z3.Select(R, h & (m - 1)), h, p, m)
    spec = z3.Store(R, idx, newv)
    goals = [("registers' == store(R, h & (m-1), max(R[h & (m-1)], clz_{64-p}(h >> p) + 1))", z3.Select(post.heap[sto.id], j) == z3.Select(spec, j)),
             ("rank in [1, 65-p]", z3.And(z3.UGE(rank, 1), z3.ULE(rank, 65 - p))),
             ("hash is called once with the sketch's seed", z3.BoolVal(len(hb.calls) == 1) if len(hb.calls) != 1 else hb.calls[0][1] == seed)]
    for i, (kind, cond) in enumerate(post.oblig):
        goals.append((f"safety[{i}] {kind}", z3.Not(cond)))
    for name, g in goals:
        r, mdl = common.z3check(list(post.pc) + [z3.Not(g)], timeout_ms, stats, label=f"_add spec: {name}")
        if r == "unsat":
            continue
        if r != "sat":
            return {"status": "unknown", "stats": stats.as_dict(), "funcs": funcs, "note": f"{r} on {name}"}
        pv, hv = ev(mdl, p), ev(mdl, h)
        old = ev(mdl, z3.Select(R, z3.BitVecVal(hv & ((1 << pv) - 1), 64)))
        cex = {"kind": "hll-add", "p": pv, "seed": ev(mdl, seed), "hash": hv, "old_register": old, "clause": name}
        return {"status": "cex", "stats": stats.as_dict(), "funcs": funcs, "cex": cex, "replay": replay(cex), "finding_key": "hll-add:" + name[:20]}
    return {"status": "proved", "stats": stats.as_dict(), "funcs": funcs}


def ob_add_algebra(timeout_ms):
    """on the kernel itself, two symbolic hashes: adds commute and are idempotent (functional registers, symbolic p)"""
    stats = common.Stats()
    p = z3.BitVec("p", 64)
    m = z3.BitVecVal(1, 64) << p
    R = z3.Array("R", z3.BitVecSort(64), z3.BitVecSort(8))
    k1, k2 = new_key("a"), new_key("b", 2)
    seed = z3.BitVec("seed", 64)
    funcs = set()

    def seq(keys):
        hb = HB
        ex = Executor(stubs={"fasthash64": hb.stub()})
        st = State()
        sto = Store()
        st.heap[sto.id] = R
        st.pc += [z3.UGE(p, 7), z3.ULE(p, 16)]
        regs = FArr(sto.id, types.uint8, m)
        for k in keys:
            st = run_add(ex, st, regs, p, m, k, seed)
        funcs.update(ex.funcs_encoded)
        return st, st.heap[sto.id]

    HB = HashBook()
    s12, r12 = seq([k1, k2])
    s21, r21 = seq([k2, k1])
    s1, r1 = seq([k1])
    s11, r11 = seq([k1, k1])
    s121, r121 = seq([k1, k2, k1])
    j = z3.BitVec("j", 64)
    goals = [("add(k1); add(k2) == add(k2); add(k1)", list(s12.pc) + list(s21.pc), z3.Select(r12, j) == z3.Select(r21, j)),
             ("add(k1); add(k1) == add(k1)", list(s1.pc) + list(s11.pc), z3.Select(r1, j) == z3.Select(r11, j)),
             ("add(k1); add(k2); add(k1) == add(k1); add(k2)", list(s121.pc) + list(s12.pc), z3.Select(r121, j) == z3.Select(r12, j))]
    for name, pc, g in goals:
        r, mdl = common.z3check(pc + [z3.Not(g)], timeout_ms, stats, label=f"_add algebra: {name}")
        if r == "unsat":
            continue
        if r != "sat":
            return {"status": "unknown", "stats": stats.as_dict(), "funcs": sorted(funcs), "note": f"{r} on {name}"}
        hs = list(HB.vals.values())
        pv = ev(mdl, p)
        h1, h2 = ev(mdl, hs[0]), ev(mdl, hs[1])
        init = {}
        for hv in (h1, h2):
            i = hv & ((1 << pv) - 1)
            init[str(i)] = ev(mdl, z3.Select(R, z3.BitVecVal(i, 64)))
        cex = {"kind": "hll-history", "p": pv, "seed": ev(mdl, seed), "hashes": [h1, h2], "init_registers": init,
               "ops": {"add(k1); add(k2) == add(k2); add(k1)": [[["add", 0, 0], ["add", 0, 1]], [["add", 0, 1], ["add", 0, 0]]],
                       "add(k1); add(k1) == add(k1)": [[["add", 0, 0], ["add", 0, 0]], [["add", 0, 0]]],
                       "add(k1); add(k2); add(k1) == add(k1); add(k2)": [[["add", 0, 0], ["add", 0, 1], ["add", 0, 0]], [["add", 0, 0], ["add", 0, 1]]]}[name], "clause": name}
        return {"status": "cex", "stats": stats.as_dict(), "funcs": sorted(funcs), "cex": cex, "replay": replay(cex), "finding_key": "hll-algebra"}
    return {"status": "proved", "stats": stats.as_dict(), "funcs": sorted(funcs)}


def dense_regs(st, name, m, zero=False):
    return mk_arr(st, name, types.uint8, (m,), zero)


def run_merge(ex, st, a, b, m):
    outs = ex.call_dispatcher(H()._merge, st, [a, b, mk_int(types.uint64, m)])
    outs = [(s, v) for s, v in outs if not (isinstance(v, tuple) and v and v[0] == "raise")]
    if len(outs) != 1:
        raise Unsupported(f"_merge: {len(outs)} outcomes")
    return outs[0][0]


def ob_merge_spec(m, timeout_ms):
    """_merge == element-wise max for a register file of m cells (loop unrolled m times); argument untouched;
    max-algebra corollaries (commutative, associative, idempotent) as pure queries on the kernel's result terms"""
    stats = common.Stats()
    ex = Executor(loop_bound=m + 2)
    st = State()
    a, b, c = dense_regs(st, "a", m), dense_regs(st, "b", m), dense_regs(st, "c", m)
    pre = dict(st.heap)
    post = run_merge(ex, st, a, b, m)
    funcs = sorted(ex.funcs_encoded)
    A, B = pre[a.sid], pre[b.sid]
    goals = [("a'[i] == max(a[i], b[i]) for every i", z3.And(*[post.heap[a.sid][i] == umax(A[i], B[i]) for i in range(m)])),
             ("argument registers unchanged", z3.And(*[post.heap[b.sid][i] == B[i] for i in range(m)]))]
    for i, (kind, cond) in enumerate(post.oblig):
        goals.append((f"safety[{i}] {kind}", z3.Not(cond)))
    for name, g in goals:
        r, mdl = common.z3check(list(post.pc) + [z3.Not(g)], timeout_ms, stats, label=f"_merge m={m}: {name}")
        if r == "unsat":
            continue
        if r != "sat":
            return {"status": "unknown", "stats": stats.as_dict(), "funcs": funcs, "note": f"{r} on {name}"}
        top = 65 - (m.bit_length() - 1)
        r2, mdl2 = common.z3check(list(post.pc) + [z3.Not(g)] + [z3.ULE(x, top) for x in list(A) + list(B)], timeout_ms, stats, label="replayable model (registers <= 65-p)")
        if r2 == "sat":
            mdl = mdl2
        cex = {"kind": "hll-merge", "m": m, "a": [ev(mdl, x) for x in A], "b": [ev(mdl, x) for x in B], "clause": name}
        return {"status": "cex", "stats": stats.as_dict(), "funcs": funcs, "cex": cex, "replay": replay(cex), "finding_key": "hll-merge"}
    # algebra on the kernel: merge(a,b) vs merge(b,a); merge(merge(a,b),c) vs merge(a,merge(b,c)); merge(a,a)
    def mg(x, y):
        s = State()
        s.heap = dict(pre)
        xa = dense_regs(s, "tmpx", m)
        s.heap[xa.sid] = tuple(x)
        ya = dense_regs(s, "tmpy", m)
        s.heap[ya.sid] = tuple(y)
        s2 = run_merge(Executor(loop_bound=m + 2), s, xa, ya, m)
        return s2.heap[xa.sid]
    Cc = pre[c.sid]
    alg = [("commutative", mg(A, B), mg(B, A)), ("associative", mg(mg(A, B), Cc), mg(A, mg(B, Cc))), ("idempotent", mg(A, A), A),
           ("merge of x into (x merged with y) changes nothing", mg(mg(A, B), A), mg(A, B))]
    for name, lhs, rhs in alg:
        r, mdl = common.z3check([z3.Or(*[l != rr for l, rr in zip(lhs, rhs)])], timeout_ms, stats, label=f"_merge m={m} algebra: {name}")
        if r != "unsat":
            return {"status": "unknown" if r != "sat" else "cex", "stats": stats.as_dict(), "funcs": funcs, "note": f"{r} on {name}",
                    "cex": {"kind": "hll-merge", "m": m, "a": [ev(mdl, x) for x in A], "b": [ev(mdl, x) for x in B], "clause": name} if r == "sat" else None,
                    "replay": {"reproduced": False, "how": "algebra counterexample without a spec counterexample"}}
    return {"status": "proved", "stats": stats.as_dict(), "funcs": funcs}


def ob_merge_add_commute(m, p, timeout_ms):
    """merge(add(A,h), B) == add(merge(A,B), h) on the kernels, dense m = 2^p registers, symbolic hash"""
    stats = common.Stats()
    hb = HashBook()
    key = new_key("k")
    seed = z3.BitVec("seed", 64)
    base = State()
    a, b = dense_regs(base, "a", m), dense_regs(base, "b", m)

    def path(order):
        ex = Executor(stubs={"fasthash64": hb.stub()}, loop_bound=m + 2)
        st = base.fork()
        for op in order:
            if op == "add":
                st = run_add(ex, st, a, z3.BitVecVal(p, 64), z3.BitVecVal(m, 64), key, seed)
            else:
                st = run_merge(ex, st, a, b, m)
        return ex, st
    ex1, s1 = path(["add", "merge"])
    ex2, s2 = path(["merge", "add"])
    funcs = sorted(ex1.funcs_encoded | ex2.funcs_encoded)
    g = z3.And(*[x == y for x, y in zip(s1.heap[a.sid], s2.heap[a.sid])])
    r, mdl = common.z3check(list(s1.pc) + list(s2.pc) + [z3.Not(g)], timeout_ms, stats, label=f"merge(add(A,h),B) == add(merge(A,B),h), m={m}")
    if r == "unsat":
        return {"status": "proved", "stats": stats.as_dict(), "funcs": funcs}
    if r != "sat":
        return {"status": "unknown", "stats": stats.as_dict(), "funcs": funcs, "note": r}
    hv = ev(mdl, list(hb.vals.values())[0])
    cex = {"kind": "hll-merge-add", "p": p, "seed": ev(mdl, seed), "hash": hv, "a": [ev(mdl, x) for x in base.heap[a.sid]], "b": [ev(mdl, x) for x in base.heap[b.sid]]}
    return {"status": "cex", "stats": stats.as_dict(), "funcs": funcs, "cex": cex, "replay": replay(cex), "finding_key": "hll-merge-add"}


def ob_witness(timeout_ms=60000):
    """reachability twins: a rank above 20 is reachable in the _add harness (the deep branches of the leading-zero count),
    and the maximum rank 65-p"""
    stats = common.Stats()
    hb = HashBook()
    ex = Executor(stubs={"fasthash64": hb.stub()})
    st = State()
    p = z3.BitVec("p", 64)
    m = z3.BitVecVal(1, 64) << p
    R = z3.Array("R", z3.BitVecSort(64), z3.BitVecSort(8))
    sto = Store()
    st.heap[sto.id] = R
    st.pc += [z3.UGE(p, 7), z3.ULE(p, 16)]
    regs = FArr(sto.id, types.uint8, m)
    post = run_add(ex, st, regs, p, m, new_key("k"))
    h = list(hb.vals.values())[0]
    newreg = z3.Select(post.heap[sto.id], h & (m - 1))
    r1, _ = common.z3check(list(post.pc) + [z3.UGT(newreg, 40), z3.Select(R, h & (m - 1)) == 0], timeout_ms, stats, label="witness: register raised above 40")
    r2, _ = common.z3check(list(post.pc) + [zx(newreg, 64) == 65 - p, z3.Select(R, h & (m - 1)) == 0], timeout_ms, stats, label="witness: maximum rank 65-p")
    ok = r1 == "sat" and r2 == "sat"
    return {"status": "witness" if ok else "nowitness", "stats": stats.as_dict(), "note": None if ok else f"{r1},{r2}"}


# ------------------------------------------------------------------ replay
MASK = (1 << 64) - 1


def _unxorshift(y, s):
    x = y
    for _ in range(64 // s + 1):
        x = y ^ (x >> s)
    return x


def _unmix(h):
    h = _unxorshift(h, 47)
    h = (h * pow(0x2127599BF4325C37, -1, 1 << 64)) & MASK
    h = _unxorshift(h, 23)
    return h


def key_for_hash(target, seed):
    """the 8-byte key whose FastHash64 under `seed` is `target` (FastHash64 on one block is a bijection)"""
    m = 0x880355F21E6D1965
    h2 = _unmix(target)
    h1 = (h2 * pow(m, -1, 1 << 64)) & MASK
    mixv = h1 ^ (seed ^ ((8 * m) & MASK))
    v = _unmix(mixv)
    key = v.to_bytes(8, "little")
    assert refs.py_fh64(key, seed) == target
    return key


def hash_for(p, idx, rank, salt=0):
    """a 64-bit hash value with register index idx and rank `rank` (1..65-p) for precision p"""
    w = 64 - p
    if rank > w:
        bits = 0
    else:
        bits = (1 << (w - rank)) | (salt & ((1 << (w - rank)) - 1))
    return (bits << p) | idx


def build_state(sk, p, seed, regs):
    """reach the register state `regs` (dict idx -> value, list, all values <= 65-p) on the real sketch by adding one
    crafted 8-byte key per non-zero register; returns the keys used (None if some value is unreachable)"""
    items = regs.items() if isinstance(regs, dict) else enumerate(regs)
    keys = []
    for i, v in items:
        i, v = int(i), int(v)
        if v == 0:
            continue
        if v > 65 - p:
            return None
        k = key_for_hash(hash_for(p, i, v, salt=0x5A5A5A5A5A5A + i), seed)
        sk.add(k)
        keys.append(k)
    return keys


def oracle_registers(p, seed, keys, init=None):
    m = 1 << p
    regs = [0] * m
    for i, v in (init or {}).items():
        regs[int(i)] = v
    for k in keys:
        h = refs.py_fh64(k, seed)
        idx = h & (m - 1)
        bits = h >> p
        rank = (64 - p) - bits.bit_length() + 1
        regs[idx] = max(regs[idx], rank)
    return regs


def replay(cex):
    import numpy as np
    if cex.get("kind") == "w":
        from engine import wrun
        return wrun.replay_generic(cex)
    if cex.get("kind") == "ngram":
        import c12
        return c12.replay(cex)
    Hm = H()
    k = cex["kind"]
    if k == "nlz":
        # the model's x, then the inputs next to every power of two (a model found under an uninterpreted numeric
        # function -- e.g. a log2-based count -- need not be the failing input itself)
        xs = [cex["x"]] + [v for kk in range(0, 65) for v in ((1 << kk) - 2, (1 << kk) - 1, 1 << kk, (1 << kk) + 1) if 0 <= v < (1 << 64)]
        for x in xs:
            got = int(Hm._n_leading_zeros64(np.uint64(x)))
            want = 64 - x.bit_length()
            if got != want:
                return {"reproduced": True, "how": "jitted _n_leading_zeros64(x) vs 64 - x.bit_length() (kernel-level: the function has no public wrapper); the model's x and the neighbours of every power of two", "x": x, "observed": got, "expected": want}
        return {"reproduced": False, "how": "jitted _n_leading_zeros64(x) vs 64 - x.bit_length() on the model's x and the neighbours of every power of two"}
    if k == "hll-add":
        p, seed = cex["p"], cex["seed"]
        key = key_for_hash(cex["hash"], seed)
        sk = Hm.HyperLogLog(p, seed)
        idx = cex["hash"] & ((1 << p) - 1)
        pre = build_state(sk, p, seed, {idx: cex["old_register"]})
        how = "real history: HyperLogLog(p, seed); add(key0) driving the register to the model's old value; add(key) with the 8-byte key whose FastHash64 equals the model's hash"
        if pre is None:
            sk.registers[idx] = cex["old_register"]
            pre = []
            how = "old register value above 65-p is not reachable by adds: installed through the public registers array; then add(key)"
        sk.add(key)
        want = oracle_registers(p, seed, pre + [key], None if pre else {idx: cex["old_register"]})
        got = [int(x) for x in sk.registers]
        bad = [i for i in range(len(want)) if got[i] != want[i]]
        # order independence: same keys, reversed order, fresh sketch
        sk2 = Hm.HyperLogLog(p, seed)
        for kk in [key] + pre:
            sk2.add(kk)
        got2 = [int(x) for x in sk2.registers]
        return {"reproduced": bool(bad) or (bool(pre) and got2 != got), "how": how, "keys": [x.hex() for x in pre + [key]], "differs_at": bad[:4],
                "observed": [got[i] for i in bad[:4]], "expected": [want[i] for i in bad[:4]], "order_dependent": bool(pre) and got2 != got}
    if k == "hll-hash":
        p, seed, key = cex["p"], cex["seed"], bytes.fromhex(cex["key_hex"])
        sk = Hm.HyperLogLog(p, seed)
        sk.add(key)
        want = oracle_registers(p, seed, [key])
        got = [int(x) for x in sk.registers]
        bad = [i for i in range(len(want)) if got[i] != want[i]]
        return {"reproduced": bool(bad), "how": "HyperLogLog(p, seed).add(key) vs registers computed with the python FastHash64 reference + leading-zero rule",
                "key": cex["key_hex"], "differs_at": bad[:4], "observed": [got[i] for i in bad[:4]], "expected": [want[i] for i in bad[:4]]}
    if k == "hll-merge":
        m = cex["m"]
        p = m.bit_length() - 1
        a, b = Hm.HyperLogLog(p, 0), Hm.HyperLogLog(p, 0)
        ka, kb = build_state(a, p, 0, cex["a"]), build_state(b, p, 0, cex["b"])
        how = "real history: both sketches built by adds of crafted 8-byte keys (one per non-zero register), then HyperLogLog.merge; oracle = fresh sketch fed all keys"
        if ka is None or kb is None or [int(x) for x in a.registers] != cex["a"] or [int(x) for x in b.registers] != cex["b"]:
            a, b = Hm.HyperLogLog(p, 0), Hm.HyperLogLog(p, 0)
            a.registers[:] = np.array(cex["a"], np.uint8)
            b.registers[:] = np.array(cex["b"], np.uint8)
            how = "register values not reachable by adds: installed through the public arrays; HyperLogLog.merge"
        a.merge(b)
        want = [max(x, y) for x, y in zip(cex["a"], cex["b"])]
        got = [int(x) for x in a.registers]
        bad = [i for i in range(m) if got[i] != want[i]] + [i for i in range(m) if int(b.registers[i]) != cex["b"][i]]
        return {"reproduced": bool(bad), "how": how, "differs_at": bad[:4], "observed": [got[i] for i in bad[:4] if i < m], "expected": [want[i] for i in bad[:4] if i < m]}
    if k == "hll-merge-add":
        p, seed = cex["p"], cex["seed"]
        key = key_for_hash(cex["hash"], seed)
        res = []
        for order in (("add", "merge"), ("merge", "add")):
            a, b = Hm.HyperLogLog(p, seed), Hm.HyperLogLog(p, seed)
            a.registers[:] = np.array(cex["a"], np.uint8)
            b.registers[:] = np.array(cex["b"], np.uint8)
            for op in order:
                a.add(key) if op == "add" else a.merge(b)
            res.append([int(x) for x in a.registers])
        return {"reproduced": res[0] != res[1], "how": "public API, both orders", "key": key.hex()}
    if k == "hll-history":
        p, seed = cex["p"], cex["seed"]
        keys = [key_for_hash(h, seed) for h in cex["hashes"]]
        finals = []
        fails = []
        for ops in cex["ops"]:
            sks = [Hm.HyperLogLog(p, seed) for _ in range(2)]
            for s in sks:
                for i, v in cex.get("init_registers", {}).items():
                    s.registers[int(i)] = v
            member = [set(), set()]
            for t, op in enumerate(ops):
                if op[0] == "add":
                    sks[op[1]].add(keys[op[2]])
                    member[op[1]].add(op[2])
                else:
                    sks[op[1]].merge(sks[op[2]])
                    member[op[1]] |= member[op[2]]
                for s in range(2):
                    want = oracle_registers(p, seed, [keys[i] for i in sorted(member[s])], cex.get("init_registers"))
                    got = [int(x) for x in sks[s].registers]
                    if got != want and (not cex.get("init_registers") or s == 0):
                        d = [i for i in range(len(want)) if got[i] != want[i]]
                        fails.append(f"after step {t} sketch {s}: registers differ from the distinct-key oracle at {d[:3]} got {[got[i] for i in d[:3]]} want {[want[i] for i in d[:3]]}")
            finals.append([int(x) for x in sks[0].registers])
        if len(finals) == 2 and finals[0] != finals[1]:
            fails.append("the two histories over the same key set end in different registers")
        return {"reproduced": bool(fails), "how": "public API: HyperLogLog.add/merge with 8-byte keys realising the model's hash values; oracle = independent python FastHash64 + register rule",
                "keys": [x.hex() for x in keys], "failed_clauses": fails[:5]}
    return {"reproduced": False, "how": "unknown kind"}


def ob_hash_ref(L, t_uf, t_pr):
    """The hash the registers are indexed by is FastHash64 (property text): the real fasthash64 kernel, inlined, equals the
    reference on every key of length L and every seed.  Same query ladder as C11; the counterexample is replayed at the
    HyperLogLog level (add the key, compare the registers with the python FastHash64/clz oracle)."""
    import c11
    if not c11.FN:
        c11._load()
    r = c11.ob_equiv("fasthash64", L, t_uf, t_pr)
    if r.get("status") == "cex":
        c = r["cex"]
        cex = {"kind": "hll-hash", "p": 7, "seed": c["seed"], "key_hex": c["key_hex"], "hash_level": c}
        rp = replay(cex)
        if not rp["reproduced"]:
            cex["p"] = 16
            rp = replay(cex)
        r["cex"], r["replay"] = cex, rp
        r["finding_key"] = "hll-hash:" + r.get("finding_key", "")
    return r


def validate_translator(seed, n):
    import numpy as np
    rnd = random.Random(seed + 5)
    Hm = H()
    bad = []
    for _ in range(n):
        x = rnd.choice([0, 1, (1 << 64) - 1, 1 << rnd.randrange(64), rnd.getrandbits(rnd.randrange(1, 65))])
        ex = Executor()
        outs = ex.call_dispatcher(Hm._n_leading_zeros64, State(), [Val(types.uint64, z3.BitVecVal(x, 64))])
        got = z3.simplify(outs[0][1].t).as_long()
        real = int(Hm._n_leading_zeros64(np.uint64(x)))
        if got != real:
            bad.append({"fn": "_n_leading_zeros64", "x": x, "real": real, "interp": got})
    for _ in range(max(4, n // 4)):
        p = rnd.randrange(7, 9)
        m = 1 << p
        seedv = rnd.getrandbits(64)
        key = bytes(rnd.randrange(256) for _ in range(rnd.randrange(0, 12)))
        hv = refs.py_fh64(key, seedv)
        regs0 = [rnd.randrange(0, 60) for _ in range(m)]
        st = State()
        arr = dense_regs(st, "r", m)
        st.heap[arr.sid] = tuple(z3.BitVecVal(v, 8) for v in regs0)
        ex = Executor(stubs={"fasthash64": lambda e, s, a, sig, hv=hv: [(s, Val(types.uint64, z3.BitVecVal(hv, 64)))]})
        post = run_add(ex, st, arr, z3.BitVecVal(p, 64), z3.BitVecVal(m, 64), SBytes([z3.BitVecVal(b, 8) for b in key]), z3.BitVecVal(seedv, 64))
        got = [z3.simplify(c).as_long() for c in post.heap[arr.sid]]
        sk = Hm.HyperLogLog(p, seedv)
        sk.registers[:] = np.array(regs0, np.uint8)
        sk.add(key)
        real = [int(v) for v in sk.registers]
        if got != real:
            bad.append({"fn": "_add", "p": p, "key": key.hex()})
    return {"n": n + max(4, n // 4), "n_mismatch": len(bad), "mismatches": bad[:3], "what": "jitted _n_leading_zeros64 / HyperLogLog.add vs interpreter on constants"}


def main():
    t0 = time.time()
    tier = common.get_tier()
    H()
    ok, pins = refs.check_pins()
    if not ok:
        print("reference model does not reproduce the SMHasher verification constants", pins, file=sys.stderr)
        return 2
    tmo = 600000 if tier == "quick" else 1200000
    obs = [common.Ob("_n_leading_zeros64 == clz64 for all 2^64 inputs", ob_nlz, (tmo,), hard_s=tmo / 1000 + 60, bounds={"x": "all uint64"}),
           common.Ob("_add == documented register update (symbolic p in 7..16, hash, seed, registers)", ob_add_spec, (tmo,), hard_s=tmo / 1000 * 4 + 60, bounds={"p": "7..16 symbolic", "registers": "arbitrary (z3 Array)"}),
           common.Ob("_add: commutes / idempotent on the kernel (two symbolic hashes)", ob_add_algebra, (tmo,), hard_s=tmo / 1000 * 4 + 60, bounds={"p": "7..16 symbolic"}),
           common.Ob("witness: high ranks reachable", ob_witness, (), kind="witness", hard_s=200)]
    ms = [128] if tier == "quick" else [128, 256, 512]
    for m in ms:
        obs.append(common.Ob(f"_merge == element-wise max, m={m} (+ algebra)", ob_merge_spec, (m, tmo), hard_s=tmo / 1000 * 6 + 60, bounds={"m": m}))
        if m <= 256:
            obs.append(common.Ob(f"merge/add commute on the kernels, m={m}", ob_merge_add_commute, (m, m.bit_length() - 1, tmo), hard_s=tmo / 1000 + 60, bounds={"m": m}))
    hashL = list(range(0, 33)) if tier == "quick" else list(range(0, 130))
    t_uf, t_pr = (240000, 300000) if tier == "quick" else (300000, 600000)
    for L in hashL:
        obs.append(common.Ob(f"fasthash64 (register index/rank source) == FastHash64 reference, key length {L}", ob_hash_ref, (L, t_uf, t_pr), hard_s=(t_uf + t_pr) / 1000 + 240,
                             bounds={"key_len": L, "bytes": "symbolic", "seed": "symbolic, full width"}))
    import c12
    c12.mods()
    for (L, n) in ((3, 1), (5, 2), (4, None), (260, 258), (65540, 65538)):
        obs.append(common.Ob(f"add_ngram kernel == adds of every window: HyperLogLog _add_ngram key length {L}, ngram {'>= len (symbolic)' if n is None else n}", c12.ob_ngram, ("hll", L, n, 600000), hard_s=900, bounds={"key_len": L, "ngram": n}))
    from engine import wrun
    wobs, wmeta = wrun.obligations("c02", tier)
    obs += wobs
    results = common.run_obligations(obs, progress=os.environ.get("VERIF_VERBOSE") == "1")
    funcs = set()
    for r in results:
        funcs.update(r.get("funcs") or [])
    try:
        val = validate_translator(common.get_seed(), 40 if tier == "quick" else 300)
    except Exception as e:      # e.g. a kernel that no longer folds to a numeral on constants (uninterpreted numerics)
        val = {"n": 0, "n_mismatch": 0, "mismatches": [], "what": f"translator validation could not run: {type(e).__name__}: {e}"}
    if val["n_mismatch"]:
        print("translator validation failed:", val["mismatches"], file=sys.stderr)
        return 2
    return common.finish(
        PID, tier, "model_checking", obs, results, t0=t0, funcs=funcs,
        bounds={"nlz": "all 2^64 inputs", "_add": "p symbolic in 7..16, registers arbitrary, hash and seed all 2^64 values", "_merge": f"register files of {ms} cells, unrolled", "hash": f"fasthash64 == reference for every key length {hashL[0]}..{hashL[-1]}, all bytes, all seeds",
                "histories": "no bounded unrolling needed: each lemma is an exact functional specification from an ARBITRARY register state, and every register state with values <= 65-p is reachable (FastHash64 on 8-byte keys is a bijection), so replays build the pre-state by real adds"},
        stubs=["fasthash64 -> arbitrary 64-bit value per (key identity), same value for the same key (exact: FastHash64 on 8-byte keys is a bijection, used by the replay)"],
        assumptions=["Numba lowering preserves typed-IR semantics", "equal keys give equal hashes in every sketch and process; key lengths beyond the listed ones (C11)",
                     "HyperLogLog.add/update/add_ngram wrappers forward to the kernels ignoring multiplicities and query() evaluates the current registers: CrossHair conditions attached to this check (w_c12, w_c17); merge guard: C15"],
        outside=["_merge for m > 512 (uniform loop body)", "composition of the step lemmas into 'any history = fresh sketch fed each distinct key once' is an induction written in DESIGN.md, each lemma is a solver result",
                 "query() as a function of the registers (C17)"],
        explanation="register-update semantics of the real kernels proved equal to the documented rule for all hashes/precisions; merge == pointwise max; algebraic laws; counterexamples replayed as real add/merge histories",
        validation=val, technique="symbolic execution of Numba typed IR + z3 (QF_ABV): spec equivalence with functional register file (arbitrary state), algebraic laws")


if __name__ == "__main__":
    sys.exit(main())
