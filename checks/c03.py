"""C03: heavy hitters never over-count and never report a key that was not added.  (C04 reuses this module.)

Engine K over heavyhitters._add, _merge, _max_count (typed IR; fasthash64 stubbed to symbolic columns).
(1) Induction: with a ghost function F: identity -> true count, the invariant `every non-empty cell's count <=
F(identity stored in the cell)` (+ representation invariant) is preserved by one _add / _merge from an arbitrary
sketch, and under it _max_count(key) <= F(identity(key)).  (2) Bounded histories from empty sketches with SYMBOLIC key
bytes (lengths enumerated 0..max_key_len+1) as the finder; counterexamples replayed through the public API."""
import itertools
import os
import sys
import time

sys.path.insert(0, os.path.dirname(os.path.dirname(os.path.abspath(__file__))))
import warnings

warnings.filterwarnings("ignore")
import z3
from engine import common, hhh
from engine.kit import KeyBook, zx, ev, MAX32, select_col
from engine.nbsym import Executor, State, SBytes, types, Val, mk_int

PID = "C03"
Z64 = z3.BitVecVal(0, 64)


class GhostF:
    """uninterpreted true-count function over identities (len, padded bytes)"""

    def __init__(self, name, mkl):
        self.f = z3.Function(name, *([z3.BitVecSort(8)] * (mkl + 1)), z3.BitVecSort(64))
        self.apps = []

    def __call__(self, ln, bs):
        a = self.f(ln if z3.is_expr(ln) else z3.BitVecVal(ln, 8), *bs)
        self.apps.append(a)
        return a

    def ranges(self):
        return [z3.ULT(a, 1 << 44) for a in self.apps]


def cells_inv(sk, heap, F, extra=None):
    """every non-empty cell: count <= F(identity)  (extra: list of (len, bytes, term) added on top of F)"""
    cl = []
    for r in range(sk.depth):
        for c in range(sk.width):
            b, ln, cnt = sk.cell(heap, r, c)
            tot = F(ln, b)
            for (el, eb, et) in (extra or []):
                tot = tot + z3.If(hhh.same_ident(ln, b, el, eb), et, Z64)
            cl.append(z3.Implies(cnt != 0, z3.ULE(zx(cnt, 64), tot)))
    return z3.And(*cl)


def dump_sketch(m, sk, heap):
    out = []
    for r in range(sk.depth):
        for c in range(sk.width):
            b, ln, cnt = sk.cell(heap, r, c)
            out.append({"row": r, "col": c, "bytes": bytes(ev(m, x) for x in b).hex(), "len": ev(m, ln), "count": ev(m, cnt)})
    return out


def ob_add_inv(width, depth, mkl, Ly, timeout_ms):
    stats = common.Stats()
    book = KeyBook()
    ex = Executor(stubs={"fasthash64": book.stub()})
    st = State()
    sk = hhh.SymHH(st, "s", width, depth, mkl)
    y = hhh.new_key("y", Ly)
    v = z3.BitVec("v", 32)
    F = GhostF("F", mkl)
    pre = dict(st.heap)
    post = hhh.add(ex, st, sk, y, v)
    ny, yb = hhh.ident(y.cells, Ly, mkl)
    assume = list(post.pc) + book.range_constraints() + [sk.rep_inv(pre), cells_inv(sk, pre, F)]
    goals = [("representation invariant preserved (length <= max_key_len, zero padding)", sk.rep_inv(post.heap)),
             ("every non-empty cell: count <= true count of the stored identity", cells_inv(sk, post.heap, F, [(ny, yb, zx(v, 64))])),
             ("n_added += v, n_records untouched", z3.And(post.heap[sk.nar.sid][0] == pre[sk.nar.sid][0] + zx(v, 64), post.heap[sk.nar.sid][1] == pre[sk.nar.sid][1]))]
    for i, (kind, cond) in enumerate(post.oblig):
        goals.append((f"safety[{i}] {kind}", z3.Not(cond)))
    assume += F.ranges()
    funcs = sorted(ex.funcs_encoded)
    for name, g in goals:
        r, m = common.z3check(assume + [z3.Not(g)], timeout_ms, stats, label=f"_add {depth}x{width} mkl={mkl} len(y)={Ly}: {name}")
        if r == "unsat":
            continue
        if r != "sat":
            return {"status": "unknown", "stats": stats.as_dict(), "funcs": funcs, "note": f"{r} on {name}"}
        cti = {"clause": name, "pre": dump_sketch(m, sk, pre), "added": bytes(ev(m, b) for b in y.cells).hex(), "v": ev(m, v), "post": dump_sketch(m, sk, post.heap)}
        return {"status": "cti", "stats": stats.as_dict(), "funcs": funcs, "cti": cti, "note": "induction step fails: " + str(cti)[:400]}
    return {"status": "proved", "stats": stats.as_dict(), "funcs": funcs}


def ob_merge_inv(width, depth, mkl, timeout_ms):
    stats = common.Stats()
    ex = Executor()
    st = State()
    a = hhh.SymHH(st, "a", width, depth, mkl)
    b = hhh.SymHH(st, "b", width, depth, mkl)
    F1, F2 = GhostF("F1", mkl), GhostF("F2", mkl)
    pre = dict(st.heap)
    post = hhh.merge(ex, st, a, b)
    assume = list(post.pc) + [a.rep_inv(pre), b.rep_inv(pre), cells_inv(a, pre, F1), cells_inv(b, pre, F2)]
    cl = []
    for r in range(depth):
        for c in range(width):
            bb, ln, cnt = a.cell(post.heap, r, c)
            cl.append(z3.Implies(cnt != 0, z3.ULE(zx(cnt, 64), F1(ln, bb) + F2(ln, bb))))
    same_b = z3.And(*[x == y for sid in (b.lhh.sid, b.cnt.sid, b.kl.sid, b.nar.sid) for x, y in zip(post.heap[sid], pre[sid])])
    goals = [("representation invariant preserved", a.rep_inv(post.heap)),
             ("merged cell: count <= sum of the two true counts of the stored identity", z3.And(*cl)),
             ("argument sketch unchanged", same_b),
             ("n_added and n_records summed", z3.And(post.heap[a.nar.sid][0] == pre[a.nar.sid][0] + pre[b.nar.sid][0], post.heap[a.nar.sid][1] == pre[a.nar.sid][1] + pre[b.nar.sid][1]))]
    for i, (kind, cond) in enumerate(post.oblig):
        goals.append((f"safety[{i}] {kind}", z3.Not(cond)))
    assume += F1.ranges() + F2.ranges()
    funcs = sorted(ex.funcs_encoded)
    for name, g in goals:
        r, m = common.z3check(assume + [z3.Not(g)], timeout_ms, stats, label=f"_merge {depth}x{width} mkl={mkl}: {name}")
        if r == "unsat":
            continue
        if r != "sat":
            return {"status": "unknown", "stats": stats.as_dict(), "funcs": funcs, "note": f"{r} on {name}"}
        cti = {"clause": name, "a": dump_sketch(m, a, pre), "b": dump_sketch(m, b, pre), "post": dump_sketch(m, a, post.heap)}
        if name == "argument sketch unchanged":
            # not an inductive statement: an exact fact about one merge from these two tables -- replayable
            cex = {"kind": "hh-merge-arg", "width": width, "depth": depth, "mkl": mkl, "a": cti["a"], "b": cti["b"]}
            rp = replay(cex)
            if rp["reproduced"]:
                return {"status": "cex", "stats": stats.as_dict(), "funcs": funcs, "cex": cex, "replay": rp, "finding_key": "merge-modifies-argument"}
        return {"status": "cti", "stats": stats.as_dict(), "funcs": funcs, "cti": cti, "note": "induction step fails for merge: " + str(cti)[:400]}
    return {"status": "proved", "stats": stats.as_dict(), "funcs": funcs}


def replay_merge_arg(cex):
    """install the two tables through the public arrays of real HeavyHitters sketches, merge, and look at the ARGUMENT:
    a count that grew (or a cell that now names another key) makes the merged-from sketch over-count"""
    import numpy as np
    Hm = hhh.hh()
    w, d, mkl = cex["width"], cex["depth"], cex["mkl"]

    def mk(cells):
        sk = Hm.HeavyHitters(w, d, mkl, phi=0.5)
        tot = 0
        for c in cells:
            bs = bytes.fromhex(c["bytes"])
            for i in range(mkl):
                sk.lhh[c["row"], c["col"], i] = bs[i]
            sk.key_lens[c["row"], c["col"]] = c["len"]
            sk.lhh_count[c["row"], c["col"]] = c["count"]
            tot += c["count"]
        sk.n_added_records[0] = tot
        return sk
    A, B = mk(cex["a"]), mk(cex["b"])
    before = (np.array(B.lhh).copy(), np.array(B.lhh_count).copy(), np.array(B.key_lens).copy())
    A.merge(B)
    fails = []
    for c in cex["b"]:
        r, cc = c["row"], c["col"]
        key = bytes(before[0][r, cc, :int(before[2][r, cc])])
        now = int(B.lhh_count[r, cc])
        if now > int(before[1][r, cc]):
            fails.append(f"after A.merge(B), B's cell ({r},{cc}) holding {key!r} went from {int(before[1][r, cc])} to {now}: B[{key!r}] = {int(B[key])} although B was not touched")
        elif (np.array(B.lhh)[r, cc] != before[0][r, cc]).any() or int(B.key_lens[r, cc]) != int(before[2][r, cc]):
            fails.append(f"after A.merge(B), B's cell ({r},{cc}) names another key")
    return {"reproduced": bool(fails), "how": "two real HeavyHitters with the model's tables installed through lhh / key_lens / lhh_count; A.merge(B); B inspected", "failed_clauses": fails[:3]}


def ob_maxcount_inv(width, depth, mkl, Lq, timeout_ms):
    """under the invariant: hh[key] = _max_count(key) <= F(identity(key)); and it is 0 unless some row stores exactly
    that identity in the key's cell"""
    stats = common.Stats()
    book = KeyBook()
    ex = Executor(stubs={"fasthash64": book.stub()})
    st = State()
    sk = hhh.SymHH(st, "s", width, depth, mkl)
    q = hhh.new_key("q", Lq)
    F = GhostF("F", mkl)
    pre = dict(st.heap)
    post, rv = hhh.max_count(ex, st, sk, q, Lq)
    nq, qb = hhh.ident(q.cells, Lq, mkl)
    kid = book.register(q)
    colq = [book.colterm(kid, r, width) for r in range(depth)]
    stored = []
    for r in range(depth):
        opts = []
        for c in range(width):
            b, ln, cnt = sk.cell(pre, r, c)
            opts.append(z3.And(colq[r] == c, hhh.same_ident(ln, b, nq, qb), cnt != 0))
        stored.append(z3.Or(*opts))
    assume = list(post.pc) + book.range_constraints() + [sk.rep_inv(pre), cells_inv(sk, pre, F)]
    goals = [("hh[key] <= true count of the key's identity", z3.And(rv.t >= 0, rv.t <= F(nq, qb))),
             ("hh[key] > 0 only if some row stores exactly this identity in the key's cell", z3.Implies(rv.t != 0, z3.Or(*stored))),
             ("sketch unchanged by the lookup", z3.And(*[x == y for sid in (sk.lhh.sid, sk.cnt.sid, sk.kl.sid) for x, y in zip(post.heap[sid], pre[sid])]))]
    for i, (kind, cond) in enumerate(post.oblig):
        goals.append((f"safety[{i}] {kind}", z3.Not(cond)))
    assume += F.ranges()
    funcs = sorted(ex.funcs_encoded)
    for name, g in goals:
        r, m = common.z3check(assume + [z3.Not(g)], timeout_ms, stats, label=f"_max_count {depth}x{width} mkl={mkl} len(q)={Lq}: {name}")
        if r == "unsat":
            continue
        if r != "sat":
            return {"status": "unknown", "stats": stats.as_dict(), "funcs": funcs, "note": f"{r} on {name}"}
        cti = {"clause": name, "sketch": dump_sketch(m, sk, pre), "query": bytes(ev(m, b) for b in q.cells).hex(), "returned": ev(m, rv.t), "true": ev(m, F(nq, qb))}
        return {"status": "cti", "stats": stats.as_dict(), "funcs": funcs, "cti": cti, "note": "lookup lemma fails: " + str(cti)[:400]}
    return {"status": "proved", "stats": stats.as_dict(), "funcs": funcs}


# ---------------------------------------------------------------------------------------------- bounded histories
HH_SKELS = {2: [(("add", 0), ("add", 0))],
            3: [(("add", 0), ("add", 0), ("add", 0)), (("add", 0), ("add", 1), ("merge", 0, 1))],
            4: [(("add", 0), ("add", 0), ("add", 1), ("merge", 0, 1)), (("add", 0), ("add", 1), ("merge", 0, 1), ("add", 0)), (("add", 0), ("add", 1), ("add", 1), ("merge", 0, 1))]}


def bmc_hh(width, depth, mkl, skel, lens):
    book = KeyBook()
    ex = Executor(stubs={"fasthash64": book.stub()})
    st = State()
    sks = [hhh.SymHH(st, f"s{i}", width, depth, mkl, zero=True) for i in range(2)]
    contrib = [[], []]
    keys, vals, idents = [], [], []
    li = 0
    assume = []
    for t, op in enumerate(skel):
        if op[0] == "add":
            L = lens[li]
            li += 1
            k = hhh.new_key(f"key{t}", L)
            v = z3.BitVec(f"v{t}", 32)
            assume.append(z3.Or(z3.ULE(v, 4), z3.UGE(v, MAX32 - 3), v == 97))
            st = hhh.add(ex, st, sks[op[1]], k, v)
            n, b = hhh.ident(k.cells, L, mkl)
            contrib[op[1]].append((len(idents), zx(v, 64)))
            keys.append(k)
            vals.append(v)
            idents.append((n, b, k, L))
        else:
            st = hhh.merge(ex, st, sks[op[1]], sks[op[2]])
            contrib[op[1]] = contrib[op[1]] + contrib[op[2]]
    return dict(book=book, ex=ex, st=st, sks=sks, contrib=contrib, keys=keys, vals=vals, idents=idents, assume=assume)


def col_consistency(book, idents, width, depth, mkl):
    """keys with equal identity must hash to equal columns (the stub hands out columns per structural key)"""
    cons = []
    recs = []
    for (n, b, k, L) in idents:
        hk = SBytes(k.cells[:mkl]) if L > mkl else k
        kid = book.register(hk)
        recs.append((n, b, [book.colterm(kid, r, width) for r in range(depth)]))
    for i in range(len(recs)):
        for j in range(i + 1, len(recs)):
            cons.append(z3.Implies(hhh.same_ident(recs[i][0], recs[i][1], recs[j][0], recs[j][1]), z3.And(*[x == y for x, y in zip(recs[i][2], recs[j][2])])))
    return cons, recs


def ob_bmc(prop, width, depth, mkl, skel, lens, timeout_ms):
    stats = common.Stats()
    h = bmc_hh(width, depth, mkl, skel, lens)
    st, ex, book = h["st"], h["ex"], h["book"]
    funcs = set(ex.funcs_encoded)
    for Lq in range(0, mkl + 1):
        q = hhh.new_key("probe", Lq)
        nq, qb = hhh.ident(q.cells, Lq, mkl)
        st2 = st.fork()
        ex2 = Executor(stubs={"fasthash64": book.stub()})
        post, rv = hhh.max_count(ex2, st2, h["sks"][0], q, Lq)
        funcs.update(ex2.funcs_encoded)
        cons, recs = col_consistency(book, h["idents"] + [(nq, qb, q, Lq)], width, depth, mkl)
        colq = recs[-1][2]
        f = Z64
        for (ii, vt) in h["contrib"][0]:
            f = f + z3.If(hhh.same_ident(nq, qb, h["idents"][ii][0], h["idents"][ii][1]), vt, Z64)
        assume = list(post.pc) + h["assume"] + book.range_constraints() + cons
        if prop == "overcount":
            bad = z3.Or(rv.t > f, rv.t < 0)
        else:
            # Boyer-Moore bound: hh[q] >= max_r (2 f - W_r) when positive, absent saturation
            total = Z64
            for (ii, vt) in h["contrib"][0]:
                total = total + vt
            bounds = []
            for r in range(depth):
                Wr = Z64
                for (ii, vt) in h["contrib"][0]:
                    Wr = Wr + z3.If(recs[ii][2][r] == colq[r], vt, Z64)
                bounds.append(2 * f - Wr)
            bad = z3.And(z3.ULT(total, MAX32), z3.Or(*[z3.And(bd > 0, rv.t < bd) for bd in bounds]))
        r, m = common.z3check(assume + [bad], timeout_ms, stats, label=f"HH BMC {prop} {depth}x{width} mkl={mkl} {skel} lens={lens} len(probe)={Lq}")
        if r == "unsat":
            continue
        if r != "sat":
            return {"status": "unknown", "stats": stats.as_dict(), "funcs": sorted(funcs), "note": r}
        keys = [bytes(ev(m, b) for b in k.cells) for k in h["keys"]]
        probe = bytes(ev(m, b) for b in q.cells)
        ops = []
        ki = 0
        for op in skel:
            if op[0] == "add":
                ops.append(["add", op[1], ki, ev(m, h["vals"][ki])])
                ki += 1
            else:
                ops.append(["merge", op[1], op[2]])
        cex = {"kind": "hh-history", "width": width, "depth": depth, "mkl": mkl, "keys": [k.hex() for k in keys], "probes": [probe.hex()], "ops": ops, "property": prop,
               "model_columns": {"probe": [ev(m, c) for c in colq]}}
        if width > 1:
            cex = realise_columns(cex, m, recs, keys + [probe])
        rp = hhh.replay_hh_history(cex, judge=("overcount",) if prop == "overcount" else ("dominate",)) if cex else {"reproduced": False, "how": "could not realise the column pattern with keys of the model's shape"}
        return {"status": "cex", "stats": stats.as_dict(), "funcs": sorted(funcs), "cex": cex, "replay": rp, "finding_key": hhh.classify_alias(cex) if cex else "other"}
    return {"status": "proved", "stats": stats.as_dict(), "funcs": sorted(funcs)}


def realise_columns(cex, m, recs, concrete):
    """width > 1: the model fixes a column per key and row; keep the model's NUL/alias structure but search the free
    (non-NUL) byte values so that the real FastHash columns match.  Returns None if not found."""
    H = hhh.hashes()
    w, d, mkl = cex["width"], cex["depth"], cex["mkl"]
    want = [[ev(m, c) for c in rec[2]] for rec in recs]
    keys = list(concrete)
    # group by identity
    import random
    rnd = random.Random(1)
    mapping = {}
    for trial in range(20000):
        sub = {}
        ok = True
        out = []
        for k, wc in zip(keys, want):
            kk = bytes(sub.setdefault(b, b if b == 0 else rnd.randrange(1, 256)) for b in k)
            idk = kk[:mkl]
            if [int(H.fasthash64(idk, r)) % w for r in range(d)] != wc:
                ok = False
                break
            out.append(kk)
        if ok:
            c2 = dict(cex)
            c2["keys"] = [x.hex() for x in out[:-1]]
            c2["probes"] = [out[-1].hex()]
            return c2
    return None


def replay(cex):
    if cex.get("kind") == "w":
        from engine import wrun
        return wrun.replay_generic(cex)
    if cex.get("kind") == "ngram":
        from checks import c12
        return c12.replay(cex)
    if cex.get("kind") == "hh-merge-arg":
        return replay_merge_arg(cex)
    return hhh.replay_hh_history(cex, judge=("overcount",) if cex.get("property", "overcount") == "overcount" else ("dominate",))


def build_obligations(prop, tier):
    tmo = 600000 if tier == "quick" else 1200000
    obs = []
    if tier == "quick":
        shapes = [(1, 1, 2), (2, 2, 2), (1, 2, 3)]
        bmc_cfg = [(1, 1, 2, 2), (1, 1, 2, 3), (2, 1, 2, 2), (1, 1, 1, 4)]
    else:
        shapes = [(1, 1, 1), (1, 1, 2), (2, 2, 2), (1, 2, 3), (2, 2, 3), (3, 2, 2), (2, 3, 2), (1, 1, 4)]
        bmc_cfg = [(1, 1, 2, 2), (1, 1, 2, 3), (1, 1, 2, 4), (2, 1, 2, 3), (1, 2, 2, 3), (1, 1, 3, 3), (2, 2, 2, 2)]
    return shapes, bmc_cfg, tmo


def main(prop="overcount", pid=PID):
    t0 = time.time()
    tier = common.get_tier()
    hhh.hh()
    shapes, bmc_cfg, tmo = build_obligations(prop, tier)
    obs = []
    if prop == "overcount":
        for (w, d, mkl) in shapes:
            for Ly in range(0, mkl + 2):
                obs.append(common.Ob(f"induction: _add keeps count <= true count, {d}x{w} mkl={mkl} len(key)={Ly}", ob_add_inv, (w, d, mkl, Ly, tmo), hard_s=tmo / 1000 * 4 + 120,
                                     bounds={"width": w, "depth": d, "max_key_len": mkl, "key_len": Ly, "key_bytes": "symbolic", "state": "arbitrary cells satisfying the invariant"}))
            obs.append(common.Ob(f"induction: _merge keeps count <= summed true count, {d}x{w} mkl={mkl}", ob_merge_inv, (w, d, mkl, tmo), hard_s=tmo / 1000 * 5 + 120, bounds={"width": w, "depth": d, "max_key_len": mkl}))
            for Lq in range(0, mkl + 1):
                obs.append(common.Ob(f"lookup: _max_count <= true count, {d}x{w} mkl={mkl} len(key)={Lq}", ob_maxcount_inv, (w, d, mkl, Lq, tmo), hard_s=tmo / 1000 * 4 + 120, bounds={"width": w, "depth": d, "max_key_len": mkl, "key_len": Lq}))
    nb = 0
    for (w, d, mkl, K) in bmc_cfg:
        for skel in HH_SKELS[K]:
            nadds = sum(1 for o in skel if o[0] == "add")
            for lens in itertools.product(range(0, mkl + 2), repeat=nadds):
                nb += 1
                obs.append(common.Ob(f"BMC {prop} {d}x{w} mkl={mkl} {'/'.join(o[0][0] + ''.join(map(str, o[1:])) for o in skel)} lens={lens}", ob_bmc, (prop, w, d, mkl, skel, lens, tmo),
                                     hard_s=tmo / 1000 * 3 + 120, bounds={"width": w, "depth": d, "max_key_len": mkl, "skeleton": [list(o) for o in skel], "key_lens": list(lens), "probe_len": f"0..{mkl}"}))
    return obs, shapes, bmc_cfg, nb, t0, tier


def ob_witness_branches():
    from checks import c04
    return c04.ob_witness()


def run(prop, pid, explanation, extra_outside):
    obs, shapes, bmc_cfg, nb, t0, tier = main(prop, pid)
    if prop == "overcount":
        from engine import wrun
        wobs, wmeta = wrun.obligations("c03", tier)
        obs += wobs
    obs.append(common.Ob("witness: match / replacement / decrement branches of _add all reachable in the harness", ob_witness_branches, (), kind="witness", hard_s=300))
    if prop == "overcount":
        # add_ngram must add exactly the windows of the key (an extra window is a key that was never added)
        from checks import c12
        c12.mods()
        for L, n in ((0, None), (2, None), (4, None), (3, 1), (4, 2), (5, 2), (5, 4), (6, 4)):
            obs.append(common.Ob(f"add_ngram kernel adds exactly the windows: heavy hitters _add_ngram key length {L}, ngram {'>= len (symbolic)' if n is None else n} (max_key_len 3)", c12.ob_ngram, ("hh", L, n, 600000), hard_s=720, bounds={"key_len": L}))
    results = common.run_obligations(obs, progress=os.environ.get("VERIF_VERBOSE") == "1")
    ncti = 0
    for o, r in zip(obs, results):
        if r.get("status") == "cti":
            r["status"] = "unknown"
            ncti += 1
    funcs = set()
    for r in results:
        funcs.update(r.get("funcs") or [])
    return common.finish(
        pid, tier, "model_checking", obs, results, t0=t0, funcs=funcs,
        bounds={"induction_shapes(width,depth,max_key_len)": shapes, "key_lengths": "0..max_key_len+1, bytes symbolic", "bmc(width,depth,max_key_len,K)": bmc_cfg, "bmc_obligations": nb,
                "bmc_multiplicities": "symbolic in {0..4} u {97} u {2^32-4..2^32-1}", "ghost_true_counts": "< 2^44"},
        stubs=["fasthash64 -> uninterpreted; `% width` yields a fresh column < width per (key, row); keys with equal identity are constrained to equal columns"],
        assumptions=["Numba lowering preserves typed-IR semantics", "prange == range for row-disjoint writes in _merge", "HeavyHitters.add caps value at 2^32-1 (C12)",
                     "query()/generate_candidate_set report exactly (stored key, hh[key]) pairs of non-empty cells, from the sketch's own current cache: the CrossHair conditions of checks/w_c13.py are attached to this check"],
        outside=["max_key_len > 4, keys > 255 bytes", "an induction failure without a bounded-history counterexample is reported as inconclusive (exit 2)"] + extra_outside,
        explanation=explanation,
        technique="symbolic execution of Numba typed IR + z3 (QF_UFBV): inductive invariant with an uninterpreted ghost count function, plus bounded histories with symbolic key bytes")


if __name__ == "__main__":
    sys.exit(run("overcount", PID, "count <= true-count invariant proved inductive over the real _add/_merge kernels and sufficient for _max_count; bounded histories with symbolic key bytes as finder", []))
