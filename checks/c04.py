"""C04: heavy hitters always report a key that dominates one of its cells.

Engine K.  Boyer-Moore potential of a tracked identity y in its own cell of row r:  Phi_r = +count if the cell stores
y else -count.  Invariant (absent 32-bit saturation):  Phi_r >= 2 f_y - W_r  and  count_r <= W_r,  with ghost f_y (true
count of y) and W_r (total multiplicity of all keys mapping to that cell).  Proved preserved by one _add (all three
branches) and super-additive under _merge on the real kernels; under it _max_count(y) >= max_r(2 f_y - W_r) when
positive.  Bounded histories with symbolic key bytes (shared with C03) are the counterexample finder."""
import os
import sys
import time

sys.path.insert(0, os.path.dirname(os.path.dirname(os.path.abspath(__file__))))
import warnings

warnings.filterwarnings("ignore")
import z3
from engine import common, hhh
from engine.kit import KeyBook, zx, ev, MAX32, select_col
from engine.nbsym import Executor, State, SBytes, types
from checks import c03

PID = "C04"
GW = 36  # ghost arithmetic width: counts < 2^32, f < 2^33, W < 2^32, so 2f-W and Phi fit in 36-bit signed without overflow
Z64 = z3.BitVecVal(0, GW)


def phi_terms(sk, heap, coly, ny, yb):
    """per row: (Phi_r as signed 64-bit, count_r as 64-bit) of y's cell"""
    out = []
    for r in range(sk.depth):
        opts_phi, opts_cnt = None, None
        for c in reversed(range(sk.width)):
            b, ln, cnt = sk.cell(heap, r, c)
            c64 = zx(cnt, GW)
            phi = z3.If(hhh.same_ident(ln, b, ny, yb), c64, -c64)
            opts_phi = phi if opts_phi is None else z3.If(coly[r] == c, phi, opts_phi)
            opts_cnt = c64 if opts_cnt is None else z3.If(coly[r] == c, c64, opts_cnt)
        out.append((opts_phi, opts_cnt))
    return out


def ob_glue(timeout_ms):
    """pure linear arithmetic (mathematical integers): the ghost-free potential lemmas proved on the kernels imply that
    the invariant  Phi >= 2f - W  is preserved.  D stands for 2f - W."""
    stats = common.Stats()
    P, P2, Pa, Pb, D, Da, Db, v, f, W, mc = z3.Ints("P P2 Pa Pb D Da Db v f W mc")
    goals = [("add(y,v):   Phi' = Phi + v  and  Phi >= 2f-W   =>  Phi' >= 2(f+v)-(W+v)", z3.Implies(z3.And(P2 == P + v, P >= 2 * f - W), P2 >= 2 * (f + v) - (W + v))),
             ("add(z,v) into y's cell:  Phi' >= Phi - v  =>  Phi' >= 2f-(W+v)", z3.Implies(z3.And(P2 >= P - v, P >= 2 * f - W), P2 >= 2 * f - (W + v))),
             ("add elsewhere: Phi' = Phi", z3.Implies(z3.And(P2 == P, P >= 2 * f - W), P2 >= 2 * f - W)),
             ("merge: Phi' >= Phi_a + Phi_b  =>  Phi' >= D_a + D_b", z3.Implies(z3.And(P2 >= Pa + Pb, Pa >= Da, Pb >= Db), P2 >= Da + Db)),
             ("lookup: (Phi > 0 => hh >= Phi), Phi >= D  =>  (D > 0 => hh >= D)", z3.Implies(z3.And(z3.Implies(P > 0, mc >= P), P >= D), z3.Implies(D > 0, mc >= D)))]
    for name, g in goals:
        r, _ = common.z3check([z3.Not(g)], timeout_ms, stats, label="glue: " + name)
        if r != "unsat":
            return {"status": "unknown", "stats": stats.as_dict(), "note": f"{r} on {name}"}
    return {"status": "proved", "stats": stats.as_dict(), "funcs": []}


def nosat(cnt_terms, v=None):
    """no 32-bit saturation in the cells concerned: count + v < 2^32"""
    return [z3.ULT(zx(c, GW) + (zx(v, GW) if v is not None else 0), 1 << 32) for c in cnt_terms]


def ob_add_bm(width, depth, mkl, Ly, Lz, same, timeout_ms):
    """ghost-free potential lemma for one _add from an arbitrary sketch: for the tracked identity y and its cell in every
    row:  add(y,v): Phi' == Phi + v;  add(z != y, v): Phi' >= Phi - v if z maps to y's cell, Phi' == Phi otherwise."""
    stats = common.Stats()
    book = KeyBook()
    ex = Executor(stubs={"fasthash64": book.stub()})
    st = State()
    sk = hhh.SymHH(st, "s", width, depth, mkl)
    y = hhh.new_key("y", Ly)
    z = y if same else hhh.new_key("z", Lz)
    v = z3.BitVec("v", 32)
    ny, yb = hhh.ident(y.cells, Ly, mkl)
    nz, zb = hhh.ident(z.cells, Lz if not same else Ly, mkl)
    pre = dict(st.heap)
    post = hhh.add(ex, st, sk, z, v)

    def cols(k, L):
        hk = SBytes(k.cells[:mkl]) if L > mkl else k
        kid = book.register(hk)
        return [book.colterm(kid, r, width) for r in range(depth)]
    coly = cols(y, Ly)
    colz = coly if same else cols(z, Lz)
    p0 = phi_terms(sk, pre, coly, ny, yb)
    p1 = phi_terms(sk, post.heap, coly, ny, yb)
    assume = list(post.pc) + book.range_constraints() + [sk.rep_inv(pre)]
    if not same:
        assume.append(z3.Not(hhh.same_ident(ny, yb, nz, zb)))
    funcs = sorted(ex.funcs_encoded)
    v36 = zx(v, GW)
    for r in range(depth):
        (phi0, c0), (phi1, c1) = p0[r], p1[r]
        # absent saturation: the count in the cell touched in this row plus v stays below 2^32
        touched = []
        for c in range(width):
            _b, _l, cnt = sk.cell(pre, r, c)
            touched.append(z3.Implies(colz[r] == c, z3.ULT(zx(cnt, GW) + v36, 1 << 32)))
        if same:
            goal = phi1 == phi0 + v36
        else:
            goal = z3.If(colz[r] == coly[r], phi1 >= phi0 - v36, phi1 == phi0)
        rr, m = common.z3check(assume + touched + [z3.Not(goal)], timeout_ms, stats, label=f"_add potential lemma row {r}, {depth}x{width} mkl={mkl} len(y)={Ly} len(z)={Lz} same={same}")
        if rr == "unsat":
            continue
        if rr != "sat":
            return {"status": "unknown", "stats": stats.as_dict(), "funcs": funcs, "note": rr}
        cti = {"row": r, "pre": c03.dump_sketch(m, sk, pre), "y": bytes(ev(m, b) for b in y.cells).hex(), "z": bytes(ev(m, b) for b in z.cells).hex(), "v": ev(m, v),
               "col_y": [ev(m, c) for c in coly], "col_z": [ev(m, c) for c in colz], "post": c03.dump_sketch(m, sk, post.heap)}
        return {"status": "cti", "stats": stats.as_dict(), "funcs": funcs, "cti": cti, "note": "potential lemma fails: " + str(cti)[:500]}
    return {"status": "proved", "stats": stats.as_dict(), "funcs": funcs}


def ob_merge_bm(width, depth, mkl, Ly, timeout_ms):
    """ghost-free: merged potential >= sum of the potentials (absent saturation), per row"""
    stats = common.Stats()
    book = KeyBook()
    ex = Executor()
    st = State()
    a = hhh.SymHH(st, "a", width, depth, mkl)
    b = hhh.SymHH(st, "b", width, depth, mkl)
    y = hhh.new_key("y", Ly)
    ny, yb = hhh.ident(y.cells, Ly, mkl)
    kid = book.register(y)
    coly = [book.colterm(kid, r, width) for r in range(depth)]
    pre = dict(st.heap)
    post = hhh.merge(ex, st, a, b)
    pa, pb, p1 = phi_terms(a, pre, coly, ny, yb), phi_terms(b, pre, coly, ny, yb), phi_terms(a, post.heap, coly, ny, yb)
    assume = list(post.pc) + book.range_constraints() + [a.rep_inv(pre), b.rep_inv(pre)]
    funcs = sorted(ex.funcs_encoded)
    for r in range(depth):
        ns = z3.ULT(pa[r][1] + pb[r][1], 1 << 32)
        goal = z3.And(p1[r][0] >= pa[r][0] + pb[r][0], z3.ULE(p1[r][1], pa[r][1] + pb[r][1]))
        rr, m = common.z3check(assume + [ns, z3.Not(goal)], timeout_ms, stats, label=f"_merge potential super-additive row {r}, {depth}x{width} mkl={mkl} len(y)={Ly}")
        if rr == "unsat":
            continue
        if rr != "sat":
            return {"status": "unknown", "stats": stats.as_dict(), "funcs": funcs, "note": rr}
        cti = {"row": r, "a": c03.dump_sketch(m, a, pre), "b": c03.dump_sketch(m, b, pre), "y": bytes(ev(m, x) for x in y.cells).hex(), "post": c03.dump_sketch(m, a, post.heap)}
        return {"status": "cti", "stats": stats.as_dict(), "funcs": funcs, "cti": cti, "note": "potential lemma fails for merge: " + str(cti)[:500]}
    return {"status": "proved", "stats": stats.as_dict(), "funcs": funcs}


def ob_maxcount_bm(width, depth, mkl, Ly, timeout_ms):
    """ghost-free: for every row, a positive potential of y in its cell is reported: _max_count(y) >= Phi_r"""
    stats = common.Stats()
    book = KeyBook()
    ex = Executor(stubs={"fasthash64": book.stub()})
    st = State()
    sk = hhh.SymHH(st, "s", width, depth, mkl)
    y = hhh.new_key("y", Ly)
    ny, yb = hhh.ident(y.cells, Ly, mkl)
    pre = dict(st.heap)
    post, rv = hhh.max_count(ex, st, sk, y, Ly)
    kid = book.register(y)
    coly = [book.colterm(kid, r, width) for r in range(depth)]
    ph = phi_terms(sk, pre, coly, ny, yb)
    assume = list(post.pc) + book.range_constraints() + [sk.rep_inv(pre)]
    goal = z3.And(*[z3.Implies(p > 0, z3.Extract(GW - 1, 0, rv.t) >= p) for (p, _c) in ph])
    funcs = sorted(ex.funcs_encoded)
    r, m = common.z3check(assume + [z3.Not(goal)], timeout_ms, stats, label=f"_max_count(y) >= Phi_r when positive, {depth}x{width} mkl={mkl} len(y)={Ly}")
    if r == "unsat":
        return {"status": "proved", "stats": stats.as_dict(), "funcs": funcs}
    if r != "sat":
        return {"status": "unknown", "stats": stats.as_dict(), "funcs": funcs, "note": r}
    cti = {"sketch": c03.dump_sketch(m, sk, pre), "y": bytes(ev(m, x) for x in y.cells).hex(), "returned": ev(m, rv.t)}
    return {"status": "cti", "stats": stats.as_dict(), "funcs": funcs, "cti": cti, "note": "lookup lemma fails: " + str(cti)[:500]}


def ob_witness(timeout_ms=60000):
    """the three branches of _add are all reachable in the harness, and a dominating key exists in a BMC history"""
    stats = common.Stats()
    book = KeyBook()
    ex = Executor(stubs={"fasthash64": book.stub()})
    st = State()
    sk = hhh.SymHH(st, "s", 1, 1, 2)
    y = hhh.new_key("y", 1)
    v = z3.BitVec("v", 32)
    pre = dict(st.heap)
    post = hhh.add(ex, st, sk, y, v)
    b0, l0, c0 = sk.cell(pre, 0, 0)
    b1, l1, c1 = sk.cell(post.heap, 0, 0)
    ny, yb = hhh.ident(y.cells, 1, 2)
    base = list(post.pc) + [sk.rep_inv(pre), c0 != 0, v != 0]
    res = [common.z3check(base + [hhh.same_ident(l0, b0, ny, yb), c1 == c0 + v], timeout_ms, stats, label="witness: match branch")[0],
           common.z3check(base + [z3.Not(hhh.same_ident(l0, b0, ny, yb)), hhh.same_ident(l1, b1, ny, yb), c1 == v - c0], timeout_ms, stats, label="witness: replacement branch")[0],
           common.z3check(base + [z3.Not(hhh.same_ident(l0, b0, ny, yb)), c1 == c0 - v, z3.ULT(v, c0)], timeout_ms, stats, label="witness: decrement branch")[0]]
    ok = all(r == "sat" for r in res)
    return {"status": "witness" if ok else "nowitness", "stats": stats.as_dict(), "note": None if ok else str(res)}


def replay(cex):
    if cex.get("kind") == "w":
        from engine import wrun
        return wrun.replay_generic(cex)
    return hhh.replay_hh_history(cex, judge=("dominate",))


def run():
    obs, shapes, bmc_cfg, nb, t0, tier = c03.main("dominate", PID)
    tmo = 600000 if tier == "quick" else 1200000
    ind = []
    for (w, d, mkl) in shapes:
        for Ly in range(0, mkl + 1):
            ind.append(common.Ob(f"induction: _add(y) keeps Phi_y >= 2f-W, {d}x{w} mkl={mkl} len(y)={Ly}", ob_add_bm, (w, d, mkl, Ly, Ly, True, tmo), hard_s=tmo / 1000 + 120,
                                 bounds={"width": w, "depth": d, "max_key_len": mkl, "len_y": Ly}))
            for Lz in range(0, mkl + 2):
                ind.append(common.Ob(f"induction: _add(z != y) keeps Phi_y >= 2f-W, {d}x{w} mkl={mkl} len(y)={Ly} len(z)={Lz}", ob_add_bm, (w, d, mkl, Ly, Lz, False, tmo), hard_s=tmo / 1000 + 120,
                                     bounds={"width": w, "depth": d, "max_key_len": mkl, "len_y": Ly, "len_z": Lz}))
            ind.append(common.Ob(f"induction: _merge super-additive, {d}x{w} mkl={mkl} len(y)={Ly}", ob_merge_bm, (w, d, mkl, Ly, tmo), hard_s=tmo / 1000 + 120, bounds={"width": w, "depth": d, "max_key_len": mkl, "len_y": Ly}))
            ind.append(common.Ob(f"lookup: _max_count(y) >= max_r(2f-W_r), {d}x{w} mkl={mkl} len(y)={Ly}", ob_maxcount_bm, (w, d, mkl, Ly, tmo), hard_s=tmo / 1000 + 120, bounds={"width": w, "depth": d, "max_key_len": mkl, "len_y": Ly}))
    ind.append(common.Ob("glue: potential lemmas imply Phi >= 2f - W is preserved (linear integer arithmetic)", ob_glue, (60000,), hard_s=120))
    ind.append(common.Ob("witness: all three _add branches reachable", ob_witness, (), kind="witness", hard_s=300))
    obs = ind + obs
    from engine import wrun
    wobs, wmeta = wrun.obligations("c04", tier)
    obs += wobs
    results = common.run_obligations(obs, progress=os.environ.get("VERIF_VERBOSE") == "1")
    for o, r in zip(obs, results):
        if r.get("status") == "cti":
            r["status"] = "unknown"
    funcs = set()
    for r in results:
        funcs.update(r.get("funcs") or [])
    return common.finish(
        PID, tier, "model_checking", obs, results, t0=t0, funcs=funcs,
        bounds={"induction_shapes(width,depth,max_key_len)": shapes, "key_lengths": "tracked 0..max_key_len, added 0..max_key_len+1, bytes symbolic", "bmc(width,depth,max_key_len,K)": bmc_cfg,
                "bmc_obligations": nb, "saturation": "excluded as the property states: cell totals < 2^32"},
        stubs=["fasthash64 -> uninterpreted; `% width` yields a fresh column < width per (key, row); equal identities are constrained to equal columns"],
        assumptions=["Numba lowering preserves typed-IR semantics", "prange == range in _merge", "query()/generate_candidate_set scan every row, report _max_count per stored key with count >= max(threshold,1), and never serve a stale candidate set: the CrossHair conditions of checks/w_c13.py are attached to this check"],
        outside=["saturated cells (excluded by the property)", "max_key_len > 4", "an induction failure without a bounded-history counterexample is reported as inconclusive (exit 2)"],
        explanation="Boyer-Moore potential invariant Phi >= 2f - W proved preserved by the real _add (all branches) and super-additive under _merge; sufficient for _max_count; bounded histories with symbolic key bytes as finder",
        technique="symbolic execution of Numba typed IR + z3 (QF_BV): inductive potential-function invariant with ghost totals, plus bounded histories with symbolic key bytes")


if __name__ == "__main__":
    sys.exit(run())
