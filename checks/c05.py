"""C05: an add raises the key's estimate by its multiplicity and nothing else past it.

Engine K.  One step of the real kernels (_add_linear, _add_log16, _add_log8 with _query_*, _log_counter inlined from
Numba's typed IR; fasthash64 stubbed to symbolic columns; _rand stubbed to an arbitrary draw) from an ARBITRARY
table state: all cells, bookkeeping counters, the columns of the added key and of a second key, and the multiplicity
are symbolic."""
import os
import sys
import time

sys.path.insert(0, os.path.dirname(os.path.dirname(os.path.abspath(__file__))))
import warnings

warnings.filterwarnings("ignore")
import z3
from engine import common, cmh, logh
from engine.kit import KeyBook, cm_est, zx, ev, MAX32, select_col
from engine.nbsym import Executor, State, types, Unsupported

PID = "C05"


# ------------------------------------------------------------------------------------------------ linear
def lin_harness(width, depth):
    book = KeyBook()
    ex = Executor(stubs={"fasthash64": book.stub()})
    st = State()
    sk = cmh.SymCM(st, "s", 32, width, depth)
    key, kid = book.new_key("key")
    other, oid = book.new_key("other", 2)
    value = z3.BitVec("value", 32)
    pre = dict(st.heap)
    colk = cmh.keycols(book, kid, width, depth)
    colo = cmh.keycols(book, oid, width, depth)
    post = cmh.add_linear(ex, st, sk, key, value)
    return dict(book=book, ex=ex, sk=sk, pre=pre, post=post, colk=colk, colo=colo, value=value)


def lin_clauses(h):
    sk, pre, post, colk, colo, value = h["sk"], h["pre"], h["post"], h["colk"], h["colo"], h["value"]
    old_k, old_o = cm_est(pre, sk.cms, colk), cm_est(pre, sk.cms, colo)
    new_k, new_o = cm_est(post.heap, sk.cms, colk), cm_est(post.heap, sk.cms, colo)
    z = lambda x: zx(x, 64)
    M = z3.BitVecVal(MAX32, 64)
    exp = z3.If(z3.UGT(z(old_k) + z(value), M), z3.BitVecVal(MAX32, 32), old_k + value)
    cl = [
        ("key estimate == min(old+v, 2^32-1)", new_k == exp),
        ("other key's estimate never decreases", z3.UGE(new_o, old_o)),
        ("other key's estimate <= max(own old, key's new)", z3.ULE(new_o, z3.If(z3.UGT(old_o, new_k), old_o, new_k))),
        ("n_added += v unless cut by the ceiling", z3.Implies(z3.ULE(z(old_k) + z(value), M),
                                                                post.heap[sk.nar.sid][0] == pre[sk.nar.sid][0] + z(value))),
        ("n_records untouched", post.heap[sk.nar.sid][1] == pre[sk.nar.sid][1]),
    ]
    w, d = sk.width, sk.depth
    per = []
    for r in range(d):
        for c in range(w):
            per.append(z3.Or(post.heap[sk.cms.sid][r * w + c] == pre[sk.cms.sid][r * w + c], colk[r] == c))
    for r in range(d):
        cl.append((f"row {r}: only the key's own counter may change", z3.And(*per[r * w:(r + 1) * w])))
    # cell-level spec (what C01/C18 build on): new cell = max(old cell, new_k) at the key's column
    spec = []
    for r in range(d):
        for c in range(w):
            oldc = pre[sk.cms.sid][r * w + c]
            spec.append(post.heap[sk.cms.sid][r * w + c] == z3.If(z3.And(colk[r] == c, z3.ULT(oldc, exp)), exp, oldc))
    for r in range(d):
        cl.append((f"row {r}: cell-level spec: cell' = max(cell, min(est+v, 2^32-1)) at the key's column, unchanged elsewhere", z3.And(*spec[r * w:(r + 1) * w])))
    return cl


def lin_cex(h, m, clause):
    sk = h["sk"]
    return {"kind": "linear-step", "width": sk.width, "depth": sk.depth, "clause": clause,
            "table": [ev(m, c) for c in h["pre"][sk.cms.sid]], "n_added": ev(m, h["pre"][sk.nar.sid][0]),
            "n_records": ev(m, h["pre"][sk.nar.sid][1]), "col_key": [ev(m, c) for c in h["colk"]],
            "col_other": [ev(m, c) for c in h["colo"]], "value": ev(m, h["value"])}


def ob_linear(width, depth, timeout_ms, cells_only=False):
    stats = common.Stats()
    h = lin_harness(width, depth)
    post = h["post"]
    assume = list(post.pc) + h["book"].range_constraints()
    clauses = lin_clauses(h)
    if cells_only:
        # deep shapes: the estimate-level clauses follow from the cell-level ones (proved at smaller shapes and, by
        # construction of min over rows, for any depth); only cell-level clauses and bookkeeping are decided directly
        clauses = [c for c in clauses if c[0].startswith("row ") or c[0].startswith("n_")]
    # safety: every array index the kernel computes is in bounds, no division by zero
    for i, (kind, cond) in enumerate(cmh.safety_goals(post)):
        clauses.append((f"safety[{i}] {kind}", z3.Not(cond)))
    r, info = cmh.first_failure(assume, clauses, timeout_ms, stats, f"_add_linear {depth}x{width}")
    funcs = sorted(h["ex"].funcs_encoded)
    if r is None:
        return {"status": "proved", "stats": stats.as_dict(), "funcs": funcs}
    if r == "unknown":
        return {"status": "unknown", "stats": stats.as_dict(), "funcs": funcs, "note": f"z3 unknown on: {info}"}
    name, m = info
    cex = lin_cex(h, m, name)
    rp = cmh.replay_linear_step(cex)
    return {"status": "cex", "stats": stats.as_dict(), "funcs": funcs, "cex": cex, "replay": rp, "finding_key": "linear-step:" + name[:30]}


def ob_linear_witness(width, depth, which):
    stats = common.Stats()
    h = lin_harness(width, depth)
    sk, pre, post, colk, colo = h["sk"], h["pre"], h["post"], h["colk"], h["colo"]
    assume = list(post.pc) + h["book"].range_constraints()
    if which == "shared-counter":
        # the two keys share a counter in some row but not in all, and the other key's estimate changes
        goal = [z3.Or(*[colk[r] == colo[r] for r in range(depth)]), cm_est(post.heap, sk.cms, colo) != cm_est(pre, sk.cms, colo)]
    elif which == "conservative":
        # some counter of the key is left untouched because it is already above the new count
        goal = [z3.Or(*[z3.And(select_col(pre[sk.cms.sid][r * width:(r + 1) * width], colk[r]) ==
                               select_col(post.heap[sk.cms.sid][r * width:(r + 1) * width], colk[r]), h["value"] != 0) for r in range(depth)]),
                cm_est(post.heap, sk.cms, colk) != cm_est(pre, sk.cms, colk)]
        if depth == 1:
            goal = [cm_est(post.heap, sk.cms, colk) != cm_est(pre, sk.cms, colk)]
    else:  # ceiling
        goal = [cm_est(post.heap, sk.cms, colk) == MAX32, cm_est(pre, sk.cms, colk) != MAX32]
    r, m = common.z3check(assume + goal, 60000, stats, label=f"witness {which} {depth}x{width}")
    return {"status": "witness" if r == "sat" else "nowitness", "stats": stats.as_dict(), "note": None if r == "sat" else r}


def replay(cex):
    if cex.get("kind") == "linear-step":
        return cmh.replay_linear_step(cex)
    if cex.get("kind") == "log-step":
        return logh.replay_log_step(cex)
    if cex.get("kind") == "w":
        from engine import wrun
        return wrun.replay_generic(cex)
    return {"reproduced": False, "how": "unknown cex kind"}


def main():
    t0 = time.time()
    tier = common.get_tier()
    cmh.cm()
    obs = []
    if tier == "quick":
        lin_shapes = [(w, d) for w in (1, 2, 3) for d in (1, 2, 3)]
        tmo = 600000
    else:
        lin_shapes = [(w, d) for w in (1, 2, 3, 4) for d in (1, 2, 3)] + [(1, 4), (2, 4), (5, 2), (8, 2)]
        tmo = 1200000
    deep_shapes = [] if tier == "quick" else [(3, 4), (4, 4), (2, 6), (2, 8), (4, 8), (8, 8)]
    for (w, d) in deep_shapes:
        obs.append(common.Ob(f"linear add step (cell-level clauses), width {w} depth {d}", ob_linear, (w, d, tmo, True), hard_s=tmo / 1000 * 8 + 120,
                             bounds={"width": w, "depth": d, "clauses": "cell-level spec per row, one-counter-per-row, bookkeeping"}))
    for (w, d) in lin_shapes:
        obs.append(common.Ob(f"linear add step, width {w} depth {d}", ob_linear, (w, d, tmo), hard_s=tmo / 1000 * 8 + 120,
                             bounds={"width": w, "depth": d, "table": "arbitrary (all cells symbolic)", "value": "all uint32"}))
    for which in ("shared-counter", "conservative", "ceiling"):
        obs.append(common.Ob(f"witness linear {which}", ob_linear_witness, (2, 2, which), kind="witness", hard_s=300))
    obs += logh.c05_obligations(tier)
    from engine import wrun
    wobs, wmeta = wrun.obligations("c05", tier)
    obs += wobs
    results = common.run_obligations(obs, progress=os.environ.get("VERIF_VERBOSE") == "1")
    funcs = set()
    for r in results:
        funcs.update(r.get("funcs") or [])
    val = logh.validate_translator(common.get_seed(), 40 if tier == "quick" else 300)
    if val["n_mismatch"]:
        print("translator validation failed:", val["mismatches"], file=sys.stderr)
        return 2
    return common.finish(
        PID, tier, "model_checking", obs, results, t0=t0, funcs=funcs,
        bounds={"linear_shapes(width,depth)": lin_shapes, "linear_deep_shapes_cell_level_only": deep_shapes, "log": logh.C05_BOUNDS[tier],
                "state": "arbitrary table: every cell, n_added_records, both keys' columns symbolic (collisions in any subset of rows)",
                "multiplicity": "linear: all 2^32 values after the wrapper's cap; log: v in {0,1,2,3} unrolled + one-iteration lemma of _log_counter with symbolic counter/num_reserved/base"},
        stubs=["fasthash64 -> uninterpreted; `% width` yields a fresh column < width per (key, row), memoised",
               "_rand -> arbitrary float64 draw in [0,1) and arbitrary new pointer",
               "float64 ** -> uninterpreted pow with the IEEE-sound axiom pow(x, +-0) = 1"],
        assumptions=["Numba lowering preserves typed-IR semantics", "prange == range for row-disjoint writes",
                     "the wrapper CountMinLinear.add caps value at 2^32-1 before the kernel (decided separately by C01's wrapper obligation)"],
        outside=["shapes beyond the listed ones (kernels treat rows/columns uniformly; that uniformity is prose)",
                 "log adds with v > 3 as a single query (covered by the loop-body lemma)", "rounding of base**x"],
        explanation="one symbolic step of the real add kernels from an arbitrary table, every clause of C05 as a z3 query; counterexamples replayed through the public API",
        validation=val, technique="symbolic execution of Numba typed IR + z3 (QF_BV / QF_FPBV with uninterpreted pow), one-step from arbitrary state")


if __name__ == "__main__":
    sys.exit(main())
