"""C06: log counters are exact in the reserved range and unbiased beyond it.

Decided (engine K, several modes; engine W for the class glue):
 (a) deterministic range / lower bound: with _log_counter summarised by its proved contract, the invariant `every counter
     of a key >= min(true count, num_reserved+1)` is preserved by one _add_log16/_add_log8 from an arbitrary table (all v);
     the same through merges (real-idealised goal shared with C09);
 (b) the increment rule: above the reserved range one unit step increments iff draw < base**-(c - num_reserved), consumes
     exactly one draw, and never below it (IEEE mode, _log_counter lemma); _counter2value is the documented formula;
 (c) unbiasedness of one step in exact real arithmetic: P(advance) * (value(c+1) - value(c)) = 1 for a draw uniform on [0,1);
 (d) draw freshness: _rand returns batch[ptr] and ptr+1 below 2048 without touching the batch, and at 2048 replaces the WHOLE
     batch by fresh numbers and returns the first of them with ptr = 1; the ngram kernels and the add()/add_ngram() methods
     thread the pointer through (no draw is used twice).
Not decided: comparison with the exact Markov-chain distribution, quality of numpy's generator, float rounding of base**x."""
import os
import sys
import time

sys.path.insert(0, os.path.dirname(os.path.dirname(os.path.abspath(__file__))))
import warnings

warnings.filterwarnings("ignore")
import z3
from engine import common, cmh, logh, realmode, wrun
from engine.kit import KeyBook, mk_arr, cm_est, zx, ev, select_col
from engine.nbsym import Executor, State, Val, Arr, Store, types, cast, mk_int, zi_of, mathint, Unsupported
from checks import c12

PID = "C06"


def ob_lb_add(bits, width, depth, same_key, timeout_ms):
    """LB invariant through one add (callee contract): counters of the tracked key >= min(f, num_reserved + 1)"""
    stats = common.Stats()
    C = cmh.cm()
    book = KeyBook()
    contract = logh.CounterContract()
    ex = Executor(stubs={"fasthash64": book.stub(), "_log_counter": contract.stub()})
    st = State()
    sk = cmh.SymCM(st, "s", bits, width, depth)
    added, aid = book.new_key("added")
    colj = cmh.keycols(book, aid, width, depth)
    if same_key:
        colk = colj
    else:
        tracked, tid = book.new_key("tracked", 2)
        colk = cmh.keycols(book, tid, width, depth)
    U = cmh.U[bits]
    nr = z3.BitVec("num_reserved", bits)
    v = z3.BitVec("value", 64)
    f = z3.BitVec("f", 64)
    rn = mk_arr(st, "rn", types.uint64, (1,))
    st.pc += [z3.ULT(nr, logh.UMAX[bits]), z3.ULT(f, 1 << 44), z3.ULT(v, 1 << 41)]
    pre = dict(st.heap)
    disp = C._add_log16 if bits == 16 else C._add_log8
    args = [sk.cms, sk.nar, sk.bk, mk_int(types.uint64, width), mk_int(types.uint64, depth), mk_int(U, logh.UMAX[bits]), Val(U, nr), Val(types.float64, z3.FP("base", logh.FPS)), rn,
            Val(types.uint64, z3.BitVec("ptr0", 64)), added, Val(types.uint64, v)]
    post, _ = cmh.run1(ex, disp, st, args)
    cap = lambda x: z3.If(z3.UGT(x, zx(nr, 64) + 1), zx(nr, 64) + 1, x)

    def lb(heap, ftrue):
        cl = []
        for r in range(depth):
            row = heap[sk.cms.sid][r * width:(r + 1) * width]
            cl.append(z3.UGE(zx(select_col(row, colk[r]), 64), cap(ftrue)))
        return z3.And(*cl)
    f2 = f + v if same_key else f
    assume = list(post.pc) + book.range_constraints() + [lb(pre, f)]
    r, m = common.z3check(assume + [z3.Not(lb(post.heap, f2))], timeout_ms, stats, label=f"log{bits} add keeps counters >= min(true, num_reserved+1), {depth}x{width} tracked{'==' if same_key else '!='}added")
    funcs = sorted(ex.funcs_encoded)
    if r == "unsat":
        return {"status": "proved", "stats": stats.as_dict(), "funcs": funcs}
    if r != "sat":
        return {"status": "unknown", "stats": stats.as_dict(), "funcs": funcs, "note": r}
    nrv = ev(m, nr)
    cfg = next((c for c in logh.CONFIGS[bits] if c[1] == nrv), (4294967295, nrv))
    calls = contract.calls
    c0, c1 = (ev(m, calls[0]["counter"]), ev(m, calls[0]["new"])) if calls else (0, 0)
    vv = ev(m, v)
    cex = {"kind": "log-step", "bits": bits, "width": width, "depth": depth, "max_count": cfg[0], "num_reserved": nrv, "clause": "lower bound min(true, num_reserved+1)",
           "table": [ev(m, c) for c in pre[sk.cms.sid]], "col_key": [ev(m, c) for c in colj], "col_other": [ev(m, c) for c in colk], "value": min(vv, 1 << 20), "value_model": vv,
           "draws": ([0.0] * max(0, c1 - c0) + [0.9999999999999999] * 64)[:2048], "true_before": ev(m, f), "same_key": bool(same_key)}
    return {"status": "cex", "stats": stats.as_dict(), "funcs": funcs, "cex": cex, "replay": replay(cex), "finding_key": f"log{bits}-lower-bound"}


def ob_counter2value(timeout_ms):
    """real-idealised: _counter2value(c, nr, base) is c in the reserved range and (base**(c-nr) - 1)/(base - 1) + nr beyond"""
    C = cmh.cm()
    stats = common.Stats()
    ex = Executor(fpmode="real")
    st = State()
    cI, nrI = z3.Ints("counter num_reserved")
    base = z3.Real("base")
    st.pc += [base > 1, cI >= 0, cI <= 65535, nrI >= 0, nrI < 65535]
    outs = ex.call_dispatcher(C._counter2value, st, [Val(types.uint16, z3.Int2BV(cI, 16)), Val(types.uint16, z3.Int2BV(nrI, 16)), Val(types.float64, base)])
    funcs = sorted(ex.funcs_encoded)
    if len(outs) != 1:
        return {"status": "unknown", "funcs": funcs, "note": f"{len(outs)} outcomes"}
    s, rv = outs[0]
    goal = rv.t == realmode.value_ref(cI, nrI, base)
    wraps = [c for _k, c in s.oblig]
    r, m = common.z3check_race(list(s.pc) + [z3.Or(z3.Not(goal), *wraps)], timeout_ms, stats, label="_counter2value == documented decoding")
    if r == "unsat":
        return {"status": "proved", "stats": stats.as_dict(), "funcs": funcs}
    if r != "sat":
        return {"status": "unknown", "stats": stats.as_dict(), "funcs": funcs, "note": r}
    cex = {"kind": "counter2value", "counter": m.eval(cI, model_completion=True).as_long(), "num_reserved": m.eval(nrI, model_completion=True).as_long()}
    return {"status": "cex", "stats": stats.as_dict(), "funcs": funcs, "cex": cex, "replay": replay(cex), "finding_key": "counter2value"}


def ob_unbiased(timeout_ms):
    """real-idealised: with t = base**-(c-nr) the advance probability of a uniform draw (lemma (b): the kernel advances iff
    draw < t, and 0 < t <= 1), t * (value(c+1) - value(c)) == 1 where value() is the REAL _counter2value kernel"""
    C = cmh.cm()
    stats = common.Stats()
    cI, nrI = z3.Ints("counter num_reserved")
    base = z3.Real("base")
    pc = [base > 1, nrI >= 0, nrI < 65535, cI >= nrI, cI < 65535]

    def val(k):
        ex = Executor(fpmode="real")
        st = State()
        st.pc += pc
        outs = ex.call_dispatcher(C._counter2value, st, [Val(types.uint16, z3.Int2BV(k, 16)), Val(types.uint16, z3.Int2BV(nrI, 16)), Val(types.float64, base)])
        return outs[0][0], outs[0][1].t, ex
    s0, v0, ex = val(cI)
    s1, v1, _ = val(cI + 1)
    x = z3.ToReal(cI) - z3.ToReal(nrI)
    t = Executor.POWR(base, -x)
    px = Executor.POWR(base, x)
    goals = [("advance probability * decoded increment == 1", t * (v1 - v0) == 1), ("0 < advance probability <= 1", z3.And(t > 0, t <= 1)),
             ("decoded increment == base**(c - num_reserved)", v1 - v0 == px)]
    assume = list(s0.pc) + list(s1.pc)
    funcs = sorted(ex.funcs_encoded)
    for name, g in goals:
        ax, cnt = realmode.instantiate(assume + [g, px == px], base)
        ax += [t * px == 1, z3.Implies(x == 0, t == 1)]   # pow(b,-x) * pow(b,x) = 1
        r, m = common.z3check_race(assume + ax + [z3.Not(g)], timeout_ms, stats, label="unbiased step: " + name)
        if r == "unsat":
            continue
        if r != "sat":
            return {"status": "unknown", "stats": stats.as_dict(), "funcs": funcs, "note": f"{r} on {name}"}
        cex = {"kind": "counter2value", "counter": m.eval(cI, model_completion=True).as_long(), "num_reserved": m.eval(nrI, model_completion=True).as_long(), "clause": name}
        return {"status": "cex", "stats": stats.as_dict(), "funcs": funcs, "cex": cex, "replay": replay(cex), "finding_key": "unbiased"}
    return {"status": "proved", "stats": stats.as_dict(), "funcs": funcs}


def ob_rand(timeout_ms):
    """_rand from an arbitrary pointer over a batch of 2048 symbolic draws (real-idealised; the batch is a functional
    array Int -> Real; np.random.rand(2048) -> a fresh unconstrained array)"""
    from engine.nbsym import FArrR
    C = cmh.cm()
    stats = common.Stats()
    ex = Executor(fpmode="real")
    ex.rand_functional = True
    st = State()
    N = 2048
    store = Store()
    B = z3.Array("batch", z3.IntSort(), z3.RealSort())
    st.heap[store.id] = B
    batch = FArrR(store.id, N)
    pI = z3.Int("rand_ptr")
    st.pc += [pI >= 0, pI <= N]
    outs = ex.call_dispatcher(C._rand, st, [batch, Val(types.uint64, z3.Int2BV(pI, 64))])
    outs = [(s, v) for s, v in outs if not (isinstance(v, tuple) and v and v[0] == "raise")]
    funcs = sorted(ex.funcs_encoded)
    if len(outs) != 1:
        return {"status": "unknown", "funcs": funcs, "note": f"{len(outs)} outcomes"}
    post, rv = outs[0]
    fresh_ids = getattr(ex, "fresh_arrays", [])
    if len(fresh_ids) != 1:
        cex = {"kind": "rand", "problem": f"{len(fresh_ids)} calls of np.random.rand"}
        return {"status": "cex", "stats": stats.as_dict(), "funcs": funcs, "cex": cex, "replay": replay(cex), "finding_key": "rand"}
    F = post.heap[fresh_ids[0]]
    newB = post.heap[store.id]
    val, newp = rv[0].t, zi_of(rv[1].t)
    j = z3.Int("j")
    inr = z3.And(j >= 0, j < N)
    goals = [("below 2048: returns batch[ptr] and ptr+1, batch untouched", z3.Implies(z3.And(pI < N, inr), z3.And(val == z3.Select(B, pI), newp == pI + 1, z3.Select(newB, j) == z3.Select(B, j)))),
             ("at 2048: the whole batch is replaced by fresh draws, the first of them is returned, ptr = 1", z3.Implies(z3.And(pI == N, inr), z3.And(val == z3.Select(F, 0), newp == 1, z3.Select(newB, j) == z3.Select(F, j))))]
    for i, (k, cond) in enumerate(post.oblig):
        goals.append((f"safety[{i}] {k}", z3.Not(cond)))
    for name, g in goals:
        r, m = common.z3check(list(post.pc) + [z3.Not(g)], timeout_ms, stats, label="_rand: " + name)
        if r == "unsat":
            continue
        if r != "sat":
            return {"status": "unknown", "stats": stats.as_dict(), "funcs": funcs, "note": f"{r} on {name}"}
        cex = {"kind": "rand", "ptr": m.eval(pI, model_completion=True).as_long(), "clause": name}
        return {"status": "cex", "stats": stats.as_dict(), "funcs": funcs, "cex": cex, "replay": replay(cex), "finding_key": "rand"}
    return {"status": "proved", "stats": stats.as_dict(), "funcs": funcs}


def replay(cex):
    import numpy as np
    C = cmh.cm()
    k = cex.get("kind")
    if k == "w":
        return wrun.replay_generic(cex)
    if k == "ngram":
        return c12.replay(cex)
    if k == "log-counter":
        return logh.replay_log_counter(cex)
    if k == "log-merge":
        from engine import logm
        return logm.replay(cex)
    if k == "log-step":
        rp = logh.replay_log_step(cex)
        # the lower-bound clause itself on the installed state: the tracked key's smallest counter after the add
        if not rp.get("reproduced") and cex.get("true_before") is not None and "observed" in rp and str(cex.get("clause", "")).startswith("lower bound"):
            f, v, nres = cex["true_before"], cex["value"], cex["num_reserved"]
            same = cex.get("same_key", True)
            old = rp["observed"]["old_counters"][0 if same else 1]
            got = rp["observed"]["new_counters"][0 if same else 1]
            need = min(f + v, nres + 1) if same else min(f, nres + 1)
            if old >= min(f, nres + 1) and got < need:
                rp = dict(rp)
                rp["reproduced"] = True
                rp["failed_clauses"] = [f"a key with true count {f} whose counters were all >= min({f}, num_reserved+1) had {'its own' if same else 'another'} add of {v}: its smallest counter is now {got} < min(true count, num_reserved+1) = {need}"]
        # plus the lower bound itself, as a real history on a fresh sketch: add the key v times in one call
        try:
            sk = logh.make_real_log(cex["bits"], 1, 1, cex["max_count"], cex["num_reserved"])
            tot = 0
            fails = []
            for v in (1, 2, cex["num_reserved"] // 2 + 1, cex["num_reserved"] + 3, 5):
                sk.add(b"k", v)
                tot += v
                est = float(sk.query(b"k"))
                if est < min(tot, cex["num_reserved"] + 1):
                    fails.append(f"after adds totalling {tot}: estimate {est} < min(true, num_reserved+1) = {min(tot, cex['num_reserved'] + 1)}")
            if fails:
                rp = {"reproduced": True, "how": "fresh real log sketch, adds through the public API", "failed_clauses": fails[:3]}
        except Exception:
            pass
        vm = cex.get("value_model", 0)
        if not rp.get("reproduced") and vm > (1 << 20):
            # the model's multiplicity itself (a correct kernel loops vm times: run in a child under a time limit)
            def big():
                sk2 = logh.make_real_log(cex["bits"], 1, 1, cex["max_count"], cex["num_reserved"])
                sk2.add(b"k", vm)
                return float(sk2.query(b"k")), int(sk2.n_added())
            res = common.call_with_timeout(big, 240)
            if res is not None:
                est, nadd = res
                want = min(vm, cex["num_reserved"] + 1)
                if est < want:
                    rp = {"reproduced": True, "how": "fresh real log sketch; one add(key, v) with the model's multiplicity through the public API",
                          "failed_clauses": [f"add(key, {vm}): estimate {est} < min(true count, num_reserved+1) = {want} (n_added() = {nadd})"]}
        return rp
    if k == "counter2value":
        c, nr = cex["counter"], cex["num_reserved"]
        fails = []
        for base in (1.0005, 1.09, 2.0):
            for cc in sorted(set([c, nr, nr + 1, min(nr + 7, 65535)])):
                got = float(C._counter2value(np.uint16(cc), np.uint16(nr), np.float64(base)))
                want = float(cc) if cc <= nr else (base ** float(cc - nr) - 1.0) / (base - 1.0) + float(nr)
                if abs(got - want) > 1e-9 * max(1.0, abs(want)):
                    fails.append(f"_counter2value({cc}, {nr}, {base}) = {got}, documented {want}")
        return {"reproduced": bool(fails), "how": "jitted _counter2value vs the documented formula (kernel level)", "failed_clauses": fails[:3]}
    if k == "rand":
        fails = []
        batch = np.arange(2048, dtype=np.float64) / 4096.0
        b0 = batch.copy()
        for p in (0, 1, 7, 2047, cex.get("ptr", 5) if cex.get("ptr", 5) < 2048 else 5):
            v, q = C._rand(batch, np.uint64(p))
            if float(v) != float(b0[p]) or int(q) != p + 1 or (batch != b0).any():
                fails.append(f"_rand(batch, {p}) -> ({float(v)}, {int(q)}); expected (batch[{p}]={float(b0[p])}, {p + 1}) and an untouched batch")
        v, q = C._rand(batch, np.uint64(2048))
        if int(q) != 1 or float(v) != float(batch[0]) or (batch == b0).sum() > 0:
            fails.append(f"_rand(batch, 2048): pointer {int(q)}, returned {float(v)}, {int((batch == b0).sum())} of 2048 draws recycled (slots {np.nonzero(batch == b0)[0][:4].tolist()})")
        # public level: a real sketch whose pool has been used up keeps none of its old draws
        try:
            sk = logh.make_real_log(8, 1, 1, logh.CONFIGS[8][0][0], 0)
            r0 = np.array(sk.rand_nums).copy()
            sk.add(b"k", 6000)
            r1 = np.array(sk.rand_nums)
            if int(sk.n_added()) == 6000 and (r0 == r1).any():
                fails.append(f"CountMinLog8: after 6000 unit adds (pool of 2048 used up at least twice) slots {np.nonzero(r0 == r1)[0][:4].tolist()} of rand_nums still hold the draws from construction time")
        except Exception:
            pass
        return {"reproduced": bool(fails), "how": "jitted _rand on a concrete batch (kernel level) + CountMinLog8.add through the public API watching rand_nums", "failed_clauses": fails[:3]}
    return {"reproduced": False, "how": "unknown kind"}


def main():
    t0 = time.time()
    tier = common.get_tier()
    cmh.cm()
    c12.mods()
    tmo = 300000 if tier == "quick" else 1200000
    obs = []
    shapes = [(1, 1), (2, 2), (3, 2)] if tier == "quick" else [(1, 1), (2, 2), (3, 2), (3, 3), (4, 4), (2, 8)]
    for bits in (8, 16):
        for (w, d) in shapes:
            for same in (True, False):
                obs.append(common.Ob(f"lower bound: log{bits} add keeps counters >= min(true, num_reserved+1), {d}x{w}, tracked {'==' if same else '!='} added", ob_lb_add, (bits, w, d, same, tmo),
                                     hard_s=tmo / 1000 + 120, bounds={"bits": bits, "width": w, "depth": d, "v": "< 2^41", "num_reserved": "symbolic"}))
        obs.append(common.Ob(f"lower bound through merges: log{bits} merged counter >= min(a+b, num_reserved+1) (real-idealised)", realmode.ob_merge_ideal, (bits, tmo, "lower bound through merges"), hard_s=tmo / 1000 * 3 + 120, bounds={"bits": bits}))
    for umax in (255, 65535):
        obs.append(common.Ob(f"_log_counter contract incl. increment rule and draw consumption, ceiling {umax} (IEEE mode, symbolic counter/num_reserved/base)", logh.ob_log_counter_lemma, (umax, 1, tmo), hard_s=tmo / 1000 * 10 + 120, bounds={"uint_maxval": umax}))
    obs.append(common.Ob("_counter2value == documented decoding (real-idealised)", ob_counter2value, (tmo,), hard_s=tmo / 1000 + 120))
    obs.append(common.Ob("one step is unbiased: P(advance) * decoded increment == 1 (real-idealised)", ob_unbiased, (tmo,), hard_s=tmo / 1000 * 3 + 120))
    obs.append(common.Ob("_rand: batch[ptr] / ptr+1 below 2048; whole batch replaced at 2048", ob_rand, (tmo,), hard_s=tmo / 1000 * 3 + 300, bounds={"batch": "2048 symbolic draws", "rand_ptr": "symbolic 0..2048"}))
    for kind in ("log16", "log8"):
        for L, n in ((0, None), (2, None), (3, None), (3, 1), (3, 2), (5, 2)):
            obs.append(common.Ob(f"pointer threading in _add_ngram[{kind}] key length {L}, ngram {'>= len (symbolic)' if n is None else n}", c12.ob_ngram, (kind, L, n, tmo), hard_s=tmo / 1000 + 120, bounds={"sketch": kind, "key_len": L}))
    obs.append(common.Ob("witness: log8 idealised merge harness reaches the log domain and saturation", realmode.ob_merge_ideal, (8, tmo, "WITNESS"), kind="witness", hard_s=tmo / 1000 * 3 + 120))
    wobs, wmeta = wrun.obligations("c06", tier)
    obs += wobs
    results = common.run_obligations(obs, progress=os.environ.get("VERIF_VERBOSE") == "1")
    funcs = set()
    for r in results:
        funcs.update(r.get("funcs") or [])
    return common.finish(
        PID, tier, "model_checking", obs, results, t0=t0, funcs=funcs,
        bounds={"lower_bound_shapes": shapes, "num_reserved, counters, multiplicity": "symbolic", "_rand": "full 2048-entry batch, symbolic pointer", "engine_W": wmeta},
        stubs=["fasthash64 -> uninterpreted columns", "_log_counter -> contract (proved by the lemma obligations) in the lower-bound obligations", "pow uninterpreted (IEEE) / with algebraic laws incl. pow(b,-x)*pow(b,x)=1 (real-idealised)",
               "np.random.rand(2048) -> fresh array of 2048 unconstrained values"] + wmeta.get("stubs", []),
        assumptions=["a draw uniform on [0,1) is below t with probability t (t in [0,1]) -- the only probabilistic fact used", "linearity of expectation extends one-step unbiasedness to any number of steps below the ceiling (prose)",
                     "the composition of the one-iteration lemma into the contract for v iterations is an induction (prose)"] + wmeta.get("assumptions", []),
        outside=["comparison with the exact Markov-chain distribution of the estimate", "statistical quality of numpy's generator", "float rounding of base**x", "statistical independence of two sketches' pools beyond 'each pool generator is freshly seeded' (decided)"] + wmeta.get("outside", []),
        explanation="law of the log counters decomposed into solver-decidable lemmas on the real kernels: lower-bound invariant, increment rule, decoding formula, one-step unbiasedness, draw freshness, pointer threading",
        technique="symbolic execution of Numba typed IR + z3 (QF_BV with callee contract; QF_FPBV lemma; NRA real-idealised with instantiated pow laws); CrossHair for the class glue")


if __name__ == "__main__":
    sys.exit(main())
