"""C08: engine W (CrossHair) over checks/w_c08.py -- parallel_add glue under a synchronous, scripted 'spawn' context."""
import os
import sys

sys.path.insert(0, os.path.dirname(os.path.dirname(os.path.abspath(__file__))))
from engine import wcheck, wrun

PID = "C08"


def replay(cex):
    return wrun.replay_generic(cex)


def kernel_contracts(tier):
    """The glue model replaces the merge kernels by what they are proved to do (cells merged per the kernel's law,
    bookkeeping counters summed, argument untouched).  Those contracts are C09/C03/C04/C02 obligations; the ones the glue
    relies on are discharged here as well, so that this check stands on its own (engine K, small shapes)."""
    import itertools
    from engine import common, cmh, hhh, realmode
    import c02
    import c03
    import c09
    cmh.cm()
    hhh.hh()
    c02.H()
    tmo = 300000 if tier == "quick" else 900000
    obs = [common.Ob("kernel contract: _merge_linear == saturating cell-wise sum, bookkeeping summed, argument untouched (2x2)", c09.ob_linear_merge, (2, 2, tmo), hard_s=tmo / 1000 * 8 + 120, bounds={"width": 2, "depth": 2}),
           common.Ob("kernel contract: HyperLogLog _merge == element-wise max (m=128)", c02.ob_merge_spec, (128, tmo), hard_s=tmo / 1000 * 6 + 60, bounds={"m": 128}),
           common.Ob("kernel contract: heavy hitters _merge: counts bounded, bookkeeping summed, argument untouched (1x1, max_key_len 2)", c03.ob_merge_inv, (1, 1, 2, tmo), hard_s=tmo / 1000 * 5 + 120, bounds={"width": 1, "depth": 1, "max_key_len": 2})]
    for bits in (8, 16):
        obs.append(common.Ob(f"kernel contract: _merge_log{bits} leaves its argument, sums n_added / n_records (real-idealised)", realmode.ob_merge_ideal, (bits, tmo, "argument untouched"), hard_s=tmo / 1000 * 3 + 120, bounds={"bits": bits}))
    # partitioned streams: bounded heavy-hitter histories that contain a merge, keys of every length up to max_key_len + 1
    for skel in c03.HH_SKELS[3]:
        if not any(o[0] == "merge" for o in skel):
            continue
        nadds = sum(1 for o in skel if o[0] == "add")
        for lens in itertools.product(range(0, 4), repeat=nadds):
            obs.append(common.Ob(f"kernel contract: merged heavy hitters keep a dominating key, 1x1 mkl=2 {'/'.join(o[0][0] + ''.join(map(str, o[1:])) for o in skel)} lens={lens}", c03.ob_bmc,
                                 ("dominate", 1, 1, 2, skel, lens, tmo), hard_s=tmo / 1000 * 3 + 120, bounds={"skeleton": [list(o) for o in skel], "key_lens": list(lens)}))
    return obs


if __name__ == "__main__":
    sys.exit(wcheck.run(
        PID, "c08",
        bounds={'items': '3 (2 with all three sketch kinds)', 'n_workers': '1..3 quick, 4 thorough (parallel_merging alone: 1..9)', 'assignment': 'symbolic per item', 'callback returns': 'symbolic 0..10^6'},
        explanation="the real _fill_queue/_worker/_merge_worker/parallel_merging/parallel_add under a synchronous spawn context with a symbolic item->worker assignment: every item reaches the callback once, its adds land in the block of the worker it was assigned to, every worker's block of every sketch kind is merged exactly once into the returned sketch (odd carry included), n_records is the sum of the callback's returns",
        extra_obs=kernel_contracts,
        technique="CrossHair symbolic execution (z3) of the real helpers under a synchronous scripted spawn context with shimmed numpy/numba/shared memory; the merge-kernel contracts the glue model relies on are discharged by symbolic execution of Numba typed IR + z3",
        encoded=["helpers._fill_queue", "helpers._worker", "helpers._merge_worker", "helpers.parallel_merging", "helpers.parallel_add", "helpers.attach_shared_memory"]))
