"""C08: engine W (CrossHair) over checks/w_c08.py -- parallel_add glue under a synchronous, scripted 'spawn' context."""
import os
import sys

sys.path.insert(0, os.path.dirname(os.path.dirname(os.path.abspath(__file__))))
from engine import wcheck, wrun

PID = "C08"


def replay(cex):
    return wrun.replay_generic(cex)


if __name__ == "__main__":
    sys.exit(wcheck.run(
        PID, "c08",
        bounds={'items': '3 (2 with all three sketch kinds)', 'n_workers': '1..3 quick, 4 thorough (parallel_merging alone: 1..9)', 'assignment': 'symbolic per item', 'callback returns': 'symbolic 0..10^6'},
        explanation="the real _fill_queue/_worker/_merge_worker/parallel_merging/parallel_add under a synchronous spawn context with a symbolic item->worker assignment: every item reaches the callback once, its adds land in the block of the worker it was assigned to, every worker's block of every sketch kind is merged exactly once into the returned sketch (odd carry included), n_records is the sum of the callback's returns",
        encoded=["helpers._fill_queue", "helpers._worker", "helpers._merge_worker", "helpers.parallel_merging", "helpers.parallel_add", "helpers.attach_shared_memory"]))
