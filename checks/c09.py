"""C09: merging count-min sketches adds the counts cell by cell, as documented.

Engine K.  Linear: _merge_linear == min(a+b, 2^32-1) per cell from arbitrary tables (exact, bit-vectors), argument
untouched, bookkeeping summed, corollaries as pure queries on the kernel's result terms.  Log16/log8: see engine/logm.py
(IEEE mode with uninterpreted pow/log for the facts that hold for any pow/log; real-idealised mode for 'nearest')."""
import os
import sys
import time

sys.path.insert(0, os.path.dirname(os.path.dirname(os.path.abspath(__file__))))
import warnings

warnings.filterwarnings("ignore")
import z3
from engine import common, cmh, logh, logm
from engine.kit import KeyBook, cm_est, zx, ev, MAX32, umin
from engine.nbsym import Executor, State, Val, types, mk_int

PID = "C09"


def sat_add(a, b):
    s = zx(a, 33) + zx(b, 33)
    return z3.If(z3.UGT(s, MAX32), z3.BitVecVal(MAX32, 32), z3.Extract(31, 0, s))


def ob_linear_merge(width, depth, timeout_ms):
    stats = common.Stats()
    book = KeyBook()
    ex = Executor(stubs={"fasthash64": book.stub()})
    st = State()
    a = cmh.SymCM(st, "a", 32, width, depth)
    b = cmh.SymCM(st, "b", 32, width, depth)
    pre = dict(st.heap)
    post = cmh.merge_linear(ex, st, a, b)
    A, B, R = pre[a.cms.sid], pre[b.cms.sid], post.heap[a.cms.sid]
    key, kid = book.new_key("key")
    colk = cmh.keycols(book, kid, width, depth)
    ea, eb, er = cm_est(pre, a.cms, colk), cm_est(pre, b.cms, colk), cm_est(post.heap, a.cms, colk)
    deep = width * depth > 16
    goals = [("every cell == min(a + b, 2^32-1)", z3.And(*[r == sat_add(x, y) for r, x, y in zip(R, A, B)])),
             ("argument sketch unchanged (table and bookkeeping)", z3.And(*[x == y for sid in (b.cms.sid, b.nar.sid) for x, y in zip(post.heap[sid], pre[sid])])),
             ("n_added and n_records are the sums", z3.And(post.heap[a.nar.sid][0] == pre[a.nar.sid][0] + pre[b.nar.sid][0], post.heap[a.nar.sid][1] == pre[a.nar.sid][1] + pre[b.nar.sid][1])),
             ("merged counter never below either input", z3.And(*[z3.And(z3.UGE(r, x), z3.UGE(r, y)) for r, x, y in zip(R, A, B)])),
             ("merging an empty sketch changes nothing", z3.Implies(z3.And(*[y == 0 for y in B]), z3.And(*[r == x for r, x in zip(R, A)]))),
             ("merged estimate >= min(est_a + est_b, 2^32-1) for any key", z3.UGE(er, sat_add(ea, eb)))]
    if deep:
        goals.pop()  # decided by decomposition below (row lemma per row + depth-d glue lemma)
    for i, (kind, cond) in enumerate(post.oblig):
        goals.append((f"safety[{i}] {kind}", z3.Not(cond)))
    funcs = set(ex.funcs_encoded)
    # commutativity: run the kernel the other way round on the same symbolic tables
    st2 = State()
    st2.heap = dict(pre)
    ex2 = Executor()
    post2 = cmh.merge_linear(ex2, st2, b, a)
    funcs.update(ex2.funcs_encoded)
    goals.append(("commutative: a.merge(b) and b.merge(a) give the same table and bookkeeping",
                  z3.And(*[x == y for x, y in zip(post.heap[a.cms.sid], post2.heap[b.cms.sid])] + [x == y for x, y in zip(post.heap[a.nar.sid], post2.heap[b.nar.sid])])))
    assume = list(post.pc) + list(post2.pc) + book.range_constraints()
    r, info = cmh.first_failure(assume, goals, timeout_ms, stats, f"_merge_linear {depth}x{width}")
    if r is None and deep:
        r, info = cmh.merge_estimate_goals_decomposed(assume, pre, post, a, b, colk, sat_add, timeout_ms, stats, f"_merge_linear {depth}x{width}")
    if r is None:
        return {"status": "proved", "stats": stats.as_dict(), "funcs": sorted(funcs)}
    if r == "unknown":
        return {"status": "unknown", "stats": stats.as_dict(), "funcs": sorted(funcs), "note": f"unknown on {info}"}
    name, m = info
    cex = {"kind": "linear-merge", "width": width, "depth": depth, "clause": name, "a": [ev(m, x) for x in A], "b": [ev(m, x) for x in B],
           "nar_a": [ev(m, x) for x in pre[a.nar.sid]], "nar_b": [ev(m, x) for x in pre[b.nar.sid]], "col_key": [ev(m, c) for c in colk]}
    return {"status": "cex", "stats": stats.as_dict(), "funcs": sorted(funcs), "cex": cex, "replay": replay(cex), "finding_key": "linear-merge:" + name[:24]}


def replay_linear_merge(cex):
    import numpy as np
    C = cmh.cm()
    w, d = cex["width"], cex["depth"]
    keys = cmh.realise_keys(w, d, [cex["col_key"]])

    def mk(tab, nar):
        s = C.CountMinLinear(w, d)
        s.cms[:] = np.array(tab, np.uint32).reshape(d, w)
        s.n_added_records[:] = np.array(nar, np.uint64)
        return s
    a, b = mk(cex["a"], cex["nar_a"]), mk(cex["b"], cex["nar_b"])
    ea, eb = (int(a.query(keys[0])), int(b.query(keys[0]))) if keys else (0, 0)
    a.merge(b)
    fails = []
    want = [min(x + y, MAX32) for x, y in zip(cex["a"], cex["b"])]
    got = [int(x) for x in a.cms.flatten()]
    if got != want:
        i = next(i for i in range(len(want)) if got[i] != want[i])
        fails.append(f"cell {i}: {cex['a'][i]} merged with {cex['b'][i]} gives {got[i]}, expected {want[i]}")
    if [int(x) for x in b.cms.flatten()] != cex["b"] or [int(x) for x in b.n_added_records] != cex["nar_b"]:
        fails.append("merge modified its argument")
    M64 = (1 << 64) - 1
    if [int(x) for x in a.n_added_records] != [(x + y) & M64 for x, y in zip(cex["nar_a"], cex["nar_b"])]:
        fails.append(f"bookkeeping {list(a.n_added_records)} is not the sum of {cex['nar_a']} and {cex['nar_b']}")
    if keys and int(a.query(keys[0])) < min(ea + eb, MAX32):
        fails.append(f"merged estimate {int(a.query(keys[0]))} below min({ea}+{eb}, 2^32-1)")
    a2, b2 = mk(cex["a"], cex["nar_a"]), mk(cex["b"], cex["nar_b"])
    b2.merge(a2)
    if [int(x) for x in b2.cms.flatten()] != got:
        fails.append("a.merge(b) and b.merge(a) differ")
    return {"reproduced": bool(fails), "how": "tables installed through public cms[:] / n_added_records[:]; CountMinLinear.merge / query", "failed_clauses": fails[:5]}


BIG_CELLS = 8200          # two tables of 8200 cells: block / chunk boundaries at 1024, 2048, 4096, 8192 lie inside
BIG_SYM = sorted(set(i + d for i in (0, 1024, 2048, 4096, 8192) for d in (-1, 0, 1) if 0 <= i + d < 8200) | {8199})


def ob_merge_big(kind, timeout_ms):
    """every cell is merged exactly once also in a LARGE table: a 1 x 8200 table in which all cells are concrete zeros
    except 17 symbolic ones next to the indices where a chunked or blocked loop would switch chunk (multiples of 1024)
    and at both ends; symbolic counters are kept small (sum within the exact range), so the specification is a + b"""
    stats = common.Stats()
    C = cmh.cm()
    bits = {"linear": 32, "log16": 16, "log8": 8}[kind]
    ex = Executor(loop_bound=BIG_CELLS + 8)
    st = State()
    a = cmh.SymCM(st, "a", bits, BIG_CELLS, 1, zero=True)
    b = cmh.SymCM(st, "b", bits, BIG_CELLS, 1, zero=True)
    A, B = list(st.heap[a.cms.sid]), list(st.heap[b.cms.sid])
    sa, sb = {}, {}
    for i in BIG_SYM:
        sa[i], sb[i] = z3.BitVec(f"a_{i}", bits), z3.BitVec(f"b_{i}", bits)
        A[i], B[i] = sa[i], sb[i]
        st.pc += [z3.ULE(sa[i], 3), z3.ULE(sb[i], 3)]
    st.heap[a.cms.sid], st.heap[b.cms.sid] = tuple(A), tuple(B)
    pre = dict(st.heap)
    U = cmh.U[bits]
    W, D = mk_int(types.uint64, BIG_CELLS), mk_int(types.uint64, 1)
    if bits == 32:
        post = cmh.run1(ex, C._merge_linear, st, [a.cms, b.cms, W, D, mk_int(types.uint32, MAX32), a.nar, b.nar])[0]
    else:
        cfg = logh.CONFIGS[bits][0]
        disp = C._merge_log16 if bits == 16 else C._merge_log8
        post = cmh.run1(ex, disp, st, [a.cms, b.cms, W, D, mk_int(types.uint64, cfg[0]), mk_int(U, logh.UMAX[bits]), mk_int(U, cfg[1]), Val(types.float64, z3.FPVal(logh.real_base(bits, cfg), logh.FPS)), a.nar, b.nar])[0]
    R, B2 = post.heap[a.cms.sid], post.heap[b.cms.sid]
    funcs = sorted(ex.funcs_encoded)
    bad = z3.Or(*[R[i] != (A[i] + B[i]) for i in range(BIG_CELLS) if not (z3.is_bv_value(R[i]) and z3.is_bv_value(A[i]) and z3.is_bv_value(B[i]) and R[i].as_long() == A[i].as_long() + B[i].as_long())] +
                [B2[i] != B[i] for i in BIG_SYM] + [z3.BoolVal(False)])
    r, m = common.z3check(list(post.pc) + [bad], timeout_ms, stats, label=f"_merge_{kind} on a 1x{BIG_CELLS} table: every cell == a + b (small counters), argument untouched")
    if r == "unsat":
        return {"status": "proved", "stats": stats.as_dict(), "funcs": funcs}
    if r != "sat":
        return {"status": "unknown", "stats": stats.as_dict(), "funcs": funcs, "note": r}
    cex = {"kind": "merge-big", "counter": kind, "cells": BIG_CELLS, "a": {str(i): ev(m, sa[i]) for i in BIG_SYM}, "b": {str(i): ev(m, sb[i]) for i in BIG_SYM}}
    return {"status": "cex", "stats": stats.as_dict(), "funcs": funcs, "cex": cex, "replay": replay(cex), "finding_key": "merge-big:" + kind}


def replay_merge_big(cex):
    import numpy as np
    C = cmh.cm()
    n = cex["cells"]
    cls = {"linear": C.CountMinLinear, "log16": C.CountMinLog16, "log8": C.CountMinLog8}[cex["counter"]]
    fails = []
    for shape in ((n, 1), (n // 8, 8)):
        x, y = cls(*shape), cls(*shape)
        fa, fb = np.zeros(shape[0] * shape[1], x.cms.dtype), np.zeros(shape[0] * shape[1], x.cms.dtype)
        for i, v in cex["a"].items():
            if int(i) < fa.size:
                fa[int(i)] = v
        for i, v in cex["b"].items():
            if int(i) < fb.size:
                fb[int(i)] = max(v, 1)
        x.cms[:] = fa.reshape(shape[1], shape[0])
        y.cms[:] = fb.reshape(shape[1], shape[0])
        x.merge(y)
        got = np.array(x.cms).reshape(-1).astype(np.int64)
        want = fa.astype(np.int64) + fb.astype(np.int64)
        d = np.nonzero(got != want)[0]
        if d.size:
            fails.append(f"{cls.__name__}(width={shape[0]}, depth={shape[1]}): {d.size} cell(s) differ from a + b, e.g. flat index {int(d[0])}: {int(fa[d[0]])} merged with {int(fb[d[0]])} gives {int(got[d[0]])}")
    return {"reproduced": bool(fails), "how": "real sketches with the model's small counters installed through cms[:] at the same flat indices (and 1 where the model had 0 in the argument); merge; compared cell by cell with a + b", "failed_clauses": fails[:3]}


def replay(cex):
    if cex.get("kind") == "merge-big":
        return replay_merge_big(cex)
    if cex.get("kind") == "w":
        from engine import wrun
        return wrun.replay_generic(cex)
    if cex.get("kind") == "linear-merge":
        return replay_linear_merge(cex)
    return logm.replay(cex)


def main():
    t0 = time.time()
    tier = common.get_tier()
    cmh.cm()
    tmo = 600000 if tier == "quick" else 1200000
    shapes = [(1, 1), (2, 2), (3, 2), (3, 3)] if tier == "quick" else [(w, d) for w in (1, 2, 3, 4) for d in (1, 2, 3, 4)] + [(8, 8)]
    obs = [common.Ob(f"linear merge == saturating cell-wise sum, {d}x{w}", ob_linear_merge, (w, d, tmo), hard_s=tmo / 1000 * 8 + 120, bounds={"width": w, "depth": d, "tables": "arbitrary"}) for (w, d) in shapes]
    for kind in ("linear", "log16", "log8"):
        obs.append(common.Ob(f"{kind} merge on a large table (1x{BIG_CELLS}): every cell merged exactly once", ob_merge_big, (kind, tmo), hard_s=tmo / 1000 + 900,
                             bounds={"cells": BIG_CELLS, "symbolic cells": BIG_SYM, "symbolic counters": "0..3 each (sum in the exact range)", "other cells": "concrete zeros"}))
    lobs, lbounds, lstubs, loutside = logm.c09_obligations(tier)
    obs += lobs
    from engine import wrun
    wobs, wmeta = wrun.obligations("c09", tier)
    obs += wobs
    results = common.run_obligations(obs, progress=os.environ.get("VERIF_VERBOSE") == "1")
    funcs = set()
    for r in results:
        funcs.update(r.get("funcs") or [])
    return common.finish(
        PID, tier, "model_checking", obs, results, t0=t0, funcs=funcs,
        bounds={"linear_shapes(width,depth)": shapes, "linear_cells": "all 2^32 x 2^32 counter pairs per cell (symbolic)", "log": lbounds},
        stubs=["fasthash64 -> uninterpreted columns (only for the estimate corollary)"] + lstubs,
        assumptions=["Numba lowering preserves typed-IR semantics", "prange == range for row-disjoint writes", "merge() refuses mismatched parameters before calling the kernel (C15)"],
        outside=["shapes beyond the listed ones (the kernels treat cells uniformly; one large sparse table of 8200 cells checks chunk boundaries at multiples of 1024)"] + loutside,
        explanation="cell-wise specification of the real merge kernels decided by z3 over all counter pairs; counterexamples replayed through the public API with tables installed",
        technique="symbolic execution of Numba typed IR + z3 (QF_BV for linear; QF_FPBV with uninterpreted pow/log and NRA real-idealised lemmas for log)")


if __name__ == "__main__":
    sys.exit(main())
