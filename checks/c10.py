"""C10: save/load reproduces the sketch exactly, for every sketch type.  Engine W (CrossHair) over checks/w_c10.py."""
import os
import sys

sys.path.insert(0, os.path.dirname(os.path.dirname(os.path.abspath(__file__))))
from engine import wcheck, wrun

PID = "C10"


def replay(cex):
    return wrun.replay_generic(cex)


if __name__ == "__main__":
    sys.exit(wcheck.run(
        PID, "c10",
        bounds={"shapes": "width 1..3, depth 1..2, max_key_len 1..2 (enumerated inside each condition)", "parameters": "seed < 2^64, max_count < 2^64, num_reserved full range, p 7..8, phi None or any float in (0,1)",
                "state": "two table cells per sketch and both bookkeeping counters symbolic over their full ranges"},
        explanation="the real save()/load()/countmin.load() under CrossHair with an in-memory dtype-preserving npz model: class, parameters, tables, bookkeeping and mergeability with the original are reproduced; class loaders reject other counter types; HeavyHitters.load rebuilds its cache exactly once after copying",
        encoded=["CountMinLinear/Log16/Log8.save/.load", "sketchnu.countmin.load", "HyperLogLog.save/.load", "HeavyHitters.save/.load"]))
