"""C11: fasthash64 / fasthash32 / murmur3 equal the published algorithms on all inputs.

Engine K: the three public hash kernels (with every callee inlined from Numba's typed IR) are executed symbolically
for each key length L with all L key bytes and the seed fully symbolic, and compared by z3 against an
independently written rendering of the reference algorithms (engine/refs.py, pinned to SMHasher constants)."""
import os
import random
import sys
import time

sys.path.insert(0, os.path.dirname(os.path.dirname(os.path.abspath(__file__))))
import warnings

warnings.filterwarnings("ignore")
import z3
from engine import common, refs
from engine.nbsym import Executor, State, SBytes, Val, types, Unsupported

PID = "C11"
FN = {}  # name -> (dispatcher, seed width, py reference)


def _load():
    from sketchnu import hashes
    FN["fasthash64"] = (hashes.fasthash64, 64, refs.py_fh64)
    FN["fasthash32"] = (hashes.fasthash32, 64, refs.py_fh32)
    FN["murmur3"] = (hashes.murmur3, 32, refs.py_mm3)
    return hashes


def _sym_run(name, L, uf, consts=None):
    disp, sw, _ = FN[name]
    ex = Executor(loop_bound=L // 4 + 8)
    ex.uf_mul = uf
    st = State()
    if consts is None:
        bs = [z3.BitVec(f"b{i}", 8) for i in range(L)]
        seed = z3.BitVec("seed", sw)
    else:
        bs = [z3.BitVecVal(b, 8) for b in consts[0]]
        seed = z3.BitVecVal(consts[1], sw)
    outs = ex.call_dispatcher(disp, st, [SBytes(bs), Val(types.uint64 if sw == 64 else types.uint32, seed)])
    if len(outs) != 1 or not isinstance(outs[0][1], Val):
        raise Unsupported(f"{name}: {len(outs)} outcomes / non-scalar return")
    s, rv = outs[0]
    return ex, s, rv, bs, seed


def _mul(uf):
    def mul(x, y, w):
        e = Executor()
        e.uf_mul = uf
        return e.imul(x, y, w)
    return mul


def replay(cex):
    """Run the real jitted function on the concrete input and compare with the plain-python reference algorithm."""
    if not FN:
        _load()
    disp, sw, pyref = FN[cex["function"]]
    key = bytes.fromhex(cex["key_hex"])
    real = int(disp(key, cex["seed"]))
    exp = pyref(key, cex["seed"])
    return {"reproduced": real != exp, "how": f"sketchnu.hashes.{cex['function']}(bytes.fromhex(key_hex), seed) on the jitted function vs reference algorithm",
            "observed": hex(real), "reference": hex(exp)}


def ob_equiv(name, L, t_uf, t_precise):
    """impl(bytes, seed) == reference(bytes, seed) for all bytes of length L and all seeds (query ladder, DESIGN 3.1)."""
    stats = common.Stats()
    disp, sw, pyref = FN[name]
    funcs = []
    for uf in (True, False):
        ex, s, rv, bs, seed = _sym_run(name, L, uf)
        funcs = sorted(ex.funcs_encoded)
        ref = refs.z_ref_hashes(_mul(uf))[name](bs, seed)
        # safety side conditions collected by the interpreter (bytes/array index in range, shift < width)
        side = [c for (_k, c) in s.oblig]
        goal = z3.Or(rv.t != ref, *side) if side else rv.t != ref
        r, m = common.z3check([goal] + list(s.pc), t_uf if uf else t_precise, stats,
                              label=f"{name} L={L} {'UF-mul' if uf else 'precise-mul'}: impl != ref")
        if r == "unsat":
            return {"status": "proved", "stats": stats.as_dict(), "funcs": funcs,
                    "note": None if uf else "needed precise multiplication"}
        if r == "sat":
            key = bytes(m.eval(b, model_completion=True).as_long() for b in bs)
            sd = m.eval(seed, model_completion=True).as_long()
            cex = {"function": name, "key_hex": key.hex(), "key_len": L, "seed": sd}
            rp = replay(cex)
            if rp["reproduced"]:
                return {"status": "cex", "stats": stats.as_dict(), "funcs": funcs, "cex": cex, "replay": rp,
                        "finding_key": f"{name}:len%8={L % 8}"}
            # model is an artefact of the uninterpreted multiplication (or a side condition): try precise
            if not uf:
                # a satisfiable side condition with equal hash values: report as cex only if the real code misbehaves -> it does not
                return {"status": "unknown", "stats": stats.as_dict(), "funcs": funcs,
                        "note": f"precise model did not reproduce: key={key.hex()} seed={sd} (side condition or encoding problem)"}
            continue
        if not uf:
            return {"status": "unknown", "stats": stats.as_dict(), "funcs": funcs, "note": f"z3 {r} on precise query"}
    return {"status": "unknown", "stats": stats.as_dict(), "funcs": funcs, "note": "ladder exhausted"}


def ob_witness(name, L):
    """Reachability twin: the harness reaches its assertion with satisfiable assumptions, and the encoded function is
    not constant (two inputs with different outputs exist)."""
    stats = common.Stats()
    ex, s, rv, bs, seed = _sym_run(name, L, False)
    ex2, s2, rv2, _, _ = _sym_run(name, L, False, consts=(bytes(L), 0))
    r, m = common.z3check(list(s.pc) + [rv.t != rv2.t], 60000, stats, label=f"{name} L={L} witness: output differs from hash(0^L, 0)")
    return {"status": "witness" if r == "sat" else "nowitness", "stats": stats.as_dict(), "note": None if r == "sat" else r}


def validate_translator(n, seed, maxlen):
    """Concrete differential: real jitted function vs. interpreter run on constants vs. python reference."""
    rnd = random.Random(seed)
    vectors = []
    # the repository's own test vectors (tests/test_hashes.py) first
    base = "abcdefghijklmnop".encode()
    for i in range(1, 17):
        vectors.append(("fasthash32", base[:i], 29))
    for k, s in ((b"", 0), (b"", 1), (b"abc", 0), (b"test", 0), (b"aaaa", 0x9747B28C), (b"abcd", 0x9747B28C)):
        vectors.append(("murmur3", k, s))
    special = [0x00, 0x7F, 0x80, 0xFF]
    for _ in range(n):
        name = rnd.choice(list(FN))
        L = rnd.choice([0, 1, 7, 8, 9, 15, 16, 17, 31, 32, 33]) if rnd.random() < 0.5 else rnd.randrange(0, maxlen + 1)
        key = bytes(rnd.choice(special) if rnd.random() < 0.4 else rnd.randrange(256) for _ in range(L))
        sw = FN[name][1]
        sd = rnd.choice([0, 1, (1 << 32) - 1, 1 << 32, 1 << 63, (1 << 64) - 1, rnd.getrandbits(64)]) & ((1 << sw) - 1)
        vectors.append((name, key, sd))
    bad = []
    for name, key, sd in vectors:
        disp, sw, pyref = FN[name]
        real = int(disp(key, sd))
        ex, s, rv, _, _ = _sym_run(name, len(key), False, consts=(key, sd))
        sym = z3.simplify(rv.t)
        symv = sym.as_long() if z3.is_bv_value(sym) else None
        if symv != real:
            bad.append({"function": name, "key": key.hex(), "seed": sd, "real": real, "interpreter": symv})
    return {"n": len(vectors), "mismatches": bad[:5], "n_mismatch": len(bad),
            "what": "real jitted hash vs symbolic interpreter on constant inputs (includes tests/test_hashes.py vectors)"}


def purity_scan():
    """Structural purity: the typed IR of the three functions and their callees references only its arguments, numba
    scalar types, builtins, numpy functions and other jitted functions -- no module-level mutable state."""
    import numpy as np
    from numba.core import ir as nir, types as nty
    from numba.core.dispatcher import Dispatcher
    from engine.nbsym import IRCACHE
    offenders = []
    nfun = 0
    for (pyf, _sig), r in list(IRCACHE.items()):
        nfun += 1
        for blk in r["func_ir"].blocks.values():
            for st in blk.body:
                if isinstance(st, nir.Assign) and isinstance(st.value, (nir.Global, nir.FreeVar)):
                    v = st.value.value
                    ok = isinstance(v, (nty.Type, Dispatcher, int, float, bool, type(None))) or v is np or callable(v) \
                        or isinstance(v, type(np)) or isinstance(v, type)
                    if not ok:
                        offenders.append(f"{pyf.__name__}: global {st.value.name} = {type(v).__name__}")
                if isinstance(st, nir.Assign) and isinstance(st.value, nir.Expr) and st.value.op == "getattr" and st.value.attr in ("ctypes", "data", "strides", "flags", "base", "itemsize"):
                    offenders.append(f"{pyf.__name__}: reads .{st.value.attr} of a buffer (address / layout of the key's memory)")
    return nfun, offenders


def replay_alignment():
    """the same bytes hashed through slices taken INSIDE jitted code at every offset 0..15 (so that the key's buffer starts
    at every alignment) and through a direct call, against the reference algorithm"""
    import numba
    hs = _load()
    fails = []
    fns = {}
    for name in FN:
        disp = FN[name][0]

        def mk(d):
            @numba.njit
            def f(buf, a, b, seed):
                return d(buf[a:b], seed)
            return f
        fns[name] = mk(disp)
    import random
    rnd = random.Random(4)
    buf = bytes(rnd.randrange(256) for _ in range(96))
    for name, (disp, sw, pyref) in FN.items():
        for off in range(16):
            for L in (0, 1, 7, 8, 9, 15, 16, 17, 24, 31, 32, 33, 40, 64):
                seed = 0 if sw == 64 else 0
                want = pyref(buf[off:off + L], seed)
                got_slice = int(fns[name](buf, off, off + L, seed))
                got_direct = int(disp(buf[off:off + L], seed))
                if got_slice != want or got_direct != want:
                    fails.append(f"{name} of the {L} bytes at offset {off}: jitted slice {got_slice:#x}, direct call {got_direct:#x}, reference {want:#x}")
                    if len(fails) >= 4:
                        return {"reproduced": True, "how": "bytes hashed via buf[a:b] inside an @njit function at offsets 0..15 and via direct calls, vs the reference algorithm", "failed_clauses": fails}
    return {"reproduced": bool(fails), "how": "bytes hashed via buf[a:b] inside an @njit function at offsets 0..15 and via direct calls, vs the reference algorithm", "failed_clauses": fails}


def main():
    t0 = time.time()
    tier = common.get_tier()
    _load()
    ok, pins = refs.check_pins()
    if not ok:
        print("reference model does not reproduce the SMHasher verification constants", pins, file=sys.stderr)
        return 2
    maxL = 64 if tier == "quick" else 257
    t_uf, t_pr = (240000, 300000) if tier == "quick" else (300000, 600000)
    try:
        val = validate_translator(60 if tier == "quick" else 400, common.get_seed(), 40 if tier == "quick" else 130)
    except Exception as e:      # the interpreter does not support something in the kernels: the obligations will say so
        val = {"n": 0, "n_mismatch": 0, "mismatches": [], "what": f"translator validation could not run: {type(e).__name__}: {e}"}
    if val["n_mismatch"]:
        print("translator validation failed:", val["mismatches"], file=sys.stderr)
        return 2
    obs = []
    lengths = list(range(0, maxL + 1)) + ([255, 256, 257, 264] if tier == "quick" else [511, 512, 513])
    for L in lengths:
        for name in FN:
            obs.append(common.Ob(f"{name} == reference, len {L}", ob_equiv, (name, L, t_uf, t_pr), hard_s=(t_uf + t_pr) / 1000 + 240,
                                 bounds={"key_len": L, "bytes": "symbolic", "seed": "symbolic, full width"}))
    for name in FN:
        for L in (0, 1, 8, 13):
            obs.append(common.Ob(f"witness {name} len {L}", ob_witness, (name, L), kind="witness", hard_s=180))
    # longest first: better packing of the process pool
    order = sorted(range(len(obs)), key=lambda i: -(obs[i].bounds or {}).get("key_len", 0))
    obs = [obs[i] for i in order]
    results = common.run_obligations(obs, progress=os.environ.get("VERIF_VERBOSE") == "1")
    nfun, offenders = purity_scan()
    if any("address / layout" in o for o in offenders):
        # a hash kernel looks at where its bytes live: not encodable, but decidable by replay
        rp = replay_alignment()
        ob = common.Ob("purity: the hash kernels read only the key's bytes, not the address / layout of its buffer", replay_alignment, (), bounds={"offsets": "0..15", "lengths": "0..64"})
        obs.append(ob)
        results.append({"status": "cex" if rp["reproduced"] else "unknown", "cex": {"kind": "alignment", "offenders": offenders}, "replay": rp, "finding_key": "hash-reads-buffer-address",
                        "note": "; ".join(offenders)[:300], "wall_s": 0.0, "stats": common.Stats().as_dict()})
    funcs = set()
    for r in results:
        funcs.update(r.get("funcs") or [])
    extra = {"reference_pins": pins, "purity_scan": {"ir_functions_scanned": nfun, "non_pure_globals": offenders}}
    if offenders:
        print("purity scan found module state read by a hash kernel:", offenders, file=sys.stderr)
    rc = common.finish(
        PID, tier, "model_checking", obs, results, t0=t0, funcs=funcs,
        bounds={"key_length": f"every length 0..{maxL} plus {[255, 256, 257, 264] if tier == 'quick' else [511, 512, 513]}, one obligation per (function, length)", "key_bytes": "all 256^L values (symbolic)",
                "seed": "all 2^64 (fasthash64/32) / 2^32 (murmur3) values (symbolic)", "loop_unrolling": "block loops fully unrolled: trip count is concrete once the length is"},
        stubs=["integer multiplication abstracted as uninterpreted MULw(x, c) in the first query of the ladder (sound: unsat under UF implies unsat for bvmul); precise bvmul in the second"],
        assumptions=["little-endian host for np.frombuffer(bytes, uint32/uint64)", "Numba's lowering preserves the typed-IR semantics",
                     "reference model = engine/refs.py, pinned to SMHasher verification values " + str(pins)],
        outside=[f"key lengths > {maxL}", "alignment of sliced bytes objects and cross-process equality (below the IR; purity is checked structurally on the IR)", "big-endian hosts"],
        explanation="bounded symbolic equivalence of the real hash kernels (Numba typed IR) with the published algorithms, decided by z3 per key length",
        extra_cov=extra, validation=val, technique="symbolic execution of Numba typed IR + z3 (QF_UFBV / QF_BV) equivalence query per key length")
    if offenders and rc == 0:
        rc = 2
    return rc


if __name__ == "__main__":
    sys.exit(main())
