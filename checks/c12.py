"""C12: batch, dict, multiplicity and ngram entry points equal loops of single adds.

Engine K part: (1) the five _add_ngram* kernels with the inner _add* recorded: for key lengths 0..L (bytes symbolic) and
every ngram >= 1 (each n <= len concretely, all n >= len symbolically up to 2^64-1) the recorded calls are exactly the
sliding windows (or the whole key), each with multiplicity 1, on the sketch's own arrays, with the random pointer
threaded through; (2) multiplicity: add(k, v+1) == add(k, v); add(k, 1) from an arbitrary state for linear count-min and
heavy hitters (v symbolic), and add(k, 2) == add(k,1); add(k,1) for log sketches under identical draws.
Engine W part (checks/w_c12.py): update(list|dict), update_ngram, __getitem__, HyperLogLog ignoring multiplicities."""
import os
import sys
import time

sys.path.insert(0, os.path.dirname(os.path.dirname(os.path.abspath(__file__))))
import warnings

warnings.filterwarnings("ignore")
import z3
from engine import common, cmh, logh, hhh, wrun
from engine.kit import KeyBook, mk_arr, zx, ev, MAX32
from engine.nbsym import Executor, State, SBytes, Val, Arr, types, cast, mk_int, Unsupported, FPS

PID = "C12"
_M = {}


def mods():
    if not _M:
        from sketchnu import countmin, heavyhitters, hyperloglog
        _M.update(cm=countmin, hh=heavyhitters, hll=hyperloglog)
    return _M


# kernel table: name -> (module key, inner kernel name, builder of (args, sketch array ids, ptr index or None))
def ngram_setup(kind, st, key, ngram):
    M = mods()
    W, D = mk_int(types.uint64, 3), mk_int(types.uint64, 2)
    if kind == "linear":
        sk = cmh.SymCM(st, "s", 32, 3, 2)
        return M["cm"]._add_ngram_linear, "_add_linear", [sk.cms, sk.nar, sk.bk, W, D, mk_int(types.uint32, MAX32), key, ngram], [sk.cms.sid, sk.nar.sid, sk.bk.sid], None, 7
    if kind in ("log16", "log8"):
        bits = 16 if kind == "log16" else 8
        sk = cmh.SymCM(st, "s", bits, 3, 2)
        U = cmh.U[bits]
        rn = mk_arr(st, "rn", types.uint64, (1,))
        ptr = z3.BitVec("rand_ptr0", 64)
        disp = M["cm"]._add_ngram_log16 if bits == 16 else M["cm"]._add_ngram_log8
        return disp, f"_add_log{bits}", [sk.cms, sk.nar, sk.bk, W, D, mk_int(U, logh.UMAX[bits]), Val(U, z3.BitVec("num_reserved", bits)), Val(types.float64, z3.FP("base", FPS)), rn,
                                         Val(types.uint64, ptr), key, ngram], [sk.cms.sid, sk.nar.sid, sk.bk.sid, rn.sid], 9, 11
    if kind == "hh":
        sk = hhh.SymHH(st, "s", 2, 2, 3)
        return M["hh"]._add_ngram, "_add", [sk.lhh, sk.cnt, sk.kl, sk.nar, mk_int(types.uint64, 2), D, mk_int(types.uint64, 3), mk_int(types.uint32, MAX32), key, ngram], [sk.lhh.sid, sk.cnt.sid, sk.kl.sid, sk.nar.sid], None, 9
    if kind == "hll":
        regs = mk_arr(st, "regs", types.uint8, (128,))
        return M["hll"]._add_ngram, "_add", [regs, Val(types.uint64, z3.BitVec("seed", 64)), mk_int(types.uint64, 7), mk_int(types.uint64, 128), key, ngram], [regs.sid], None, None
    raise ValueError(kind)


def ob_ngram(kind, L, n, timeout_ms):
    """n: concrete ngram (1..L) or None = symbolic ngram >= L (whole-key branch), covering everything up to 2^64-1"""
    stats = common.Stats()
    st = State()
    key = SBytes([z3.BitVec(f"k{i}", 8) for i in range(L)])
    ng = z3.BitVec("ngram", 64)
    if n is None:
        st.pc.append(z3.UGE(ng, max(L, 1)))
        ngv = Val(types.uint64, ng)
    else:
        ngv = mk_int(types.uint64, n)
    disp, inner, args, sids, ptr_idx, val_idx = ngram_setup(kind, st, key, ngv)
    calls = []

    def recorder(ex, state, a, sig):
        k = len(calls)
        rec = {"args": a, "state_pc": list(state.pc)}
        calls.append(rec)
        if ptr_idx is not None:
            out = z3.BitVec(f"ptr_ret{k}", 64)
            rec["ret"] = out
            return [(state, Val(types.uint64, out))]
        return [(state, None)]
    ex = Executor(stubs={inner: recorder}, loop_bound=L + 3)
    outs = ex.call_dispatcher(disp, st, args)
    outs = [(s, v) for s, v in outs if not (isinstance(v, tuple) and v and v[0] == "raise")]
    funcs = sorted(ex.funcs_encoded)
    if len(outs) != 1:
        return {"status": "unknown", "funcs": funcs, "note": f"{len(outs)} outcomes (symbolic loop bound not resolved?)"}
    post, rv = outs[0]
    # expected windows
    if n is None or L <= n:
        exp = [list(range(L))]
    else:
        exp = [list(range(i, i + n)) for i in range(L - n + 1)]
    problems = []
    if len(calls) != len(exp):
        problems.append(f"{len(calls)} inner adds recorded, expected {len(exp)} windows")
    key_pos = [i for i, a in enumerate(args) if a is key][0]
    goals = []
    for ci, (rec, win) in enumerate(zip(calls, exp)):
        a = rec["args"]
        kk = a[key_pos] if key_pos < len(a) else None
        if not isinstance(kk, SBytes) or len(kk) != len(win):
            problems.append(f"call {ci}: key of length {len(kk) if isinstance(kk, SBytes) else '?'} passed, expected window {win}")
            continue
        goals.append((f"call {ci} passes bytes {win} of the key", z3.And(*[x == key.cells[j] for x, j in zip(kk.cells, win)]) if win else z3.BoolVal(True)))
        # same arrays
        for pos, want in enumerate(args):
            if pos >= len(a):
                continue
            if isinstance(want, Arr):
                if not (isinstance(a[pos], Arr) and a[pos].sid == want.sid and a[pos].shape == want.shape and a[pos].offset == want.offset):
                    problems.append(f"call {ci}: argument {pos} is not the sketch's own array")
            elif isinstance(want, Val) and pos not in (key_pos, val_idx, ptr_idx) and isinstance(a[pos], Val):
                goals.append((f"call {ci}: scalar argument {pos} forwarded unchanged", cast(a[pos], want.ty).t == want.t))
        if val_idx is not None and val_idx < len(a) and isinstance(a[val_idx], Val):
            goals.append((f"call {ci}: multiplicity is 1", cast(a[val_idx], types.uint64).t == 1))
        if ptr_idx is not None:
            prev = args[ptr_idx].t if ci == 0 else calls[ci - 1]["ret"]
            goals.append((f"call {ci}: receives the random pointer {'given to the kernel' if ci == 0 else 'returned by call ' + str(ci - 1)}", cast(a[ptr_idx], types.uint64).t == prev))
    if ptr_idx is not None and calls and isinstance(rv, Val):
        goals.append(("the kernel returns the pointer returned by its last inner add", rv.t == calls[-1]["ret"]))
    for i, (kind_, cond) in enumerate(post.oblig):
        goals.append((f"safety[{i}] {kind_}", z3.Not(cond)))
    if problems:
        cex = {"kind": "ngram", "sketch": kind, "key_len": L, "ngram": n if n is not None else L + 5, "problems": problems}
        return {"status": "cex", "stats": stats.as_dict(), "funcs": funcs, "cex": cex, "replay": replay(cex), "finding_key": f"ngram-{kind}"}
    for name, g in goals:
        r, m = common.z3check(list(post.pc) + [z3.Not(g)], timeout_ms, stats, label=f"_add_ngram[{kind}] len={L} n={n}: {name}")
        if r == "unsat":
            continue
        if r != "sat":
            return {"status": "unknown", "stats": stats.as_dict(), "funcs": funcs, "note": f"{r} on {name}"}
        cex = {"kind": "ngram", "sketch": kind, "key_len": L, "ngram": n if n is not None else min(ev(m, ng), 1 << 40), "key": bytes(ev(m, c) for c in key.cells).hex(), "problems": [name]}
        return {"status": "cex", "stats": stats.as_dict(), "funcs": funcs, "cex": cex, "replay": replay(cex), "finding_key": f"ngram-{kind}"}
    if not goals:
        common.z3check([z3.BoolVal(False)], 1000, stats, label="trivial")
    return {"status": "proved", "stats": stats.as_dict(), "funcs": funcs}


# ----------------------------------------------------------------------------------------- multiplicity
def ob_ngram_witness():
    """reachability twin: with key length 4 and n = 2 the window branch is taken (three inner adds are recorded) and the
    path condition of the harness is satisfiable"""
    stats = common.Stats()
    st = State()
    key = SBytes([z3.BitVec(f"k{i}", 8) for i in range(4)])
    disp, inner, args, sids, ptr_idx, val_idx = ngram_setup("log8", st, key, mk_int(types.uint64, 2))
    calls = []

    def rec(ex, state, a, sig):
        calls.append(a)
        return [(state, Val(types.uint64, z3.BitVec(f"p{len(calls)}", 64)))]
    ex = Executor(stubs={inner: rec}, loop_bound=8)
    outs = ex.call_dispatcher(disp, st, args)
    r, _ = common.z3check(list(outs[0][0].pc) + [key.cells[0] != key.cells[1]], 30000, stats, label="witness: ngram window branch")
    ok = r == "sat" and len(calls) == 3
    return {"status": "witness" if ok else "nowitness", "stats": stats.as_dict(), "note": None if ok else f"{r}, {len(calls)} calls"}


def ob_mult_linear(width, depth, timeout_ms):
    stats = common.Stats()
    book = KeyBook()
    st = State()
    sk = cmh.SymCM(st, "s", 32, width, depth)
    key, kid = book.new_key("key")
    v = z3.BitVec("v", 32)
    st.pc.append(z3.ULT(v, MAX32))
    pre = dict(st.heap)
    ex = Executor(stubs={"fasthash64": book.stub()})
    a = cmh.add_linear(ex, st.fork(), sk, key, v + 1)
    b0 = cmh.add_linear(ex, st.fork(), sk, key, v)
    b = cmh.add_linear(ex, b0, sk, key, z3.BitVecVal(1, 32))
    goal = z3.And(*[x == y for sid in (sk.cms.sid, sk.nar.sid) for x, y in zip(a.heap[sid], b.heap[sid])])
    r, m = common.z3check(list(a.pc) + list(b.pc) + book.range_constraints() + [z3.Not(goal)], timeout_ms, stats, label=f"linear add(k,v+1) == add(k,v);add(k,1) {depth}x{width}")
    funcs = sorted(ex.funcs_encoded)
    if r == "unsat":
        return {"status": "proved", "stats": stats.as_dict(), "funcs": funcs}
    if r != "sat":
        return {"status": "unknown", "stats": stats.as_dict(), "funcs": funcs, "note": r}
    cex = {"kind": "mult-linear", "width": width, "depth": depth, "table": [ev(m, c) for c in pre[sk.cms.sid]], "col_key": [ev(m, c) for c in cmh.keycols(book, kid, width, depth)], "v": ev(m, v)}
    return {"status": "cex", "stats": stats.as_dict(), "funcs": funcs, "cex": cex, "replay": replay(cex), "finding_key": "mult-linear"}


def ob_mult_hh(mkl, Ly, timeout_ms):
    stats = common.Stats()
    book = KeyBook()
    st = State()
    sk = hhh.SymHH(st, "s", 1, 2, mkl)
    y = hhh.new_key("y", Ly)
    v = z3.BitVec("v", 32)
    st.pc += [z3.ULT(v, MAX32), sk.rep_inv(st.heap)]
    pre = dict(st.heap)
    ex = Executor(stubs={"fasthash64": book.stub()})
    a = hhh.add(ex, st.fork(), sk, y, v + 1)
    b0 = hhh.add(ex, st.fork(), sk, y, v)
    b = hhh.add(ex, b0, sk, y, z3.BitVecVal(1, 32))
    # observable state: count, and (key, length) of every cell with a non-zero count; bookkeeping
    cl = []
    for r in range(2):
        ba, la, ca = sk.cell(a.heap, r, 0)
        bb, lb, cb = sk.cell(b.heap, r, 0)
        cl.append(z3.And(ca == cb, z3.Implies(ca != 0, hhh.same_ident(la, ba, lb, bb))))
    cl.append(z3.And(*[x == yv for x, yv in zip(a.heap[sk.nar.sid], b.heap[sk.nar.sid])]))
    r, m = common.z3check(list(a.pc) + list(b.pc) + [z3.Not(z3.And(*cl))], timeout_ms, stats, label=f"heavy hitters add(k,v+1) == add(k,v);add(k,1) mkl={mkl} len={Ly}")
    funcs = sorted(ex.funcs_encoded)
    if r == "unsat":
        return {"status": "proved", "stats": stats.as_dict(), "funcs": funcs}
    if r != "sat":
        return {"status": "unknown", "stats": stats.as_dict(), "funcs": funcs, "note": r}
    b0_, l0, c0 = sk.cell(pre, 0, 0)
    cex = {"kind": "mult-hh", "mkl": mkl, "key": bytes(ev(m, x) for x in y.cells).hex(), "v": ev(m, v), "stored": bytes(ev(m, x) for x in b0_)[:ev(m, l0)].hex(), "stored_count": ev(m, c0)}
    return {"status": "cex", "stats": stats.as_dict(), "funcs": funcs, "cex": cex, "replay": replay(cex), "finding_key": "mult-hh"}


class RealDraws:
    """real-idealised batch of draws: the j-th draw consumed is D[j] in [0,1); the pointer counts draws"""

    def __init__(self, n):
        self.d = [z3.Real(f"draw{j}") for j in range(n)]
        self.constraints = [z3.And(x >= 0, x < 1) for x in self.d]

    def stub(self):
        me = self
        from engine.nbsym import zi_of, mathint

        def rand_stub(ex, state, args, sig):
            batch, ptr = args
            k = zi_of(cast(ptr, types.uint64, ex).t)
            t = me.d[-1]
            for j in reversed(range(len(me.d) - 1)):
                t = z3.If(k == j, me.d[j], t)
            state.oblig.append(("draws-overrun", z3.And(*state.pc, k >= len(me.d))))
            return [(state, (Val(types.float64, t), mathint(k + 1, types.uint64)))]
        return rand_stub


def ob_logcounter_compose(umax, timeout_ms):
    """real-idealised: _log_counter(c, ..., ptr, 2) == _log_counter(_log_counter(c, ..., ptr, 1), 1) with the pointer threaded,
    for symbolic counter / num_reserved / base / draws (two iterations of the loop = two single iterations)"""
    from engine.nbsym import zi_of
    C = cmh.cm()
    stats = common.Stats()
    draws = RealDraws(2)
    cI, nrI = z3.Ints("counter num_reserved")
    base = z3.Real("base")
    pre_pc = [base > 1, cI >= 0, cI <= umax, nrI >= 0, nrI < umax - 1]   # num_reserved = umax - 1 leaves a single log step: no base exists, the constructor refuses every such configuration

    def run(c_val, ptr_val, v):
        ex = Executor(fpmode="real", stubs={"_rand": draws.stub()}, loop_bound=4)
        st = State()
        st.pc += pre_pc
        rn = mk_arr(st, "rn", types.uint64, (1,))
        outs = ex.call_dispatcher(C._log_counter, st, [c_val, Val(types.uint16, z3.Int2BV(nrI, 16)), mk_int(types.uint16, umax), Val(types.float64, base), rn, ptr_val, mk_int(types.uint64, v)])
        outs = [(s, r) for s, r in outs if not (isinstance(r, tuple) and r and r[0] == "raise")]
        if len(outs) != 1:
            raise Unsupported(f"_log_counter: {len(outs)} outcomes")
        return ex, outs[0][0], outs[0][1]
    c0 = Val(types.uint16, z3.Int2BV(cI, 16))
    p0 = Val(types.uint64, z3.Int2BV(z3.IntVal(0), 64))
    exa, sa, ra = run(c0, p0, 2)
    exb, sb1, rb1 = run(c0, p0, 1)
    exc, sb2, rb2 = run(rb1[0], rb1[1], 1)
    funcs = sorted(exa.funcs_encoded)
    goal = z3.And(zi_of(ra[0].t) == zi_of(rb2[0].t), zi_of(ra[1].t) == zi_of(rb2[1].t))
    assume = list(sa.pc) + list(sb1.pc) + list(sb2.pc) + draws.constraints
    from engine import realmode
    ax, cnt = realmode.instantiate(assume + [goal], base)
    r, m = common.z3check_race(assume + ax + [z3.Not(goal)], timeout_ms, stats, label=f"_log_counter(c,2) == _log_counter(_log_counter(c,1),1), ceiling {umax} (real-idealised)")
    if r == "unsat":
        return {"status": "proved", "stats": stats.as_dict(), "funcs": funcs}
    if r != "sat":
        return {"status": "unknown", "stats": stats.as_dict(), "funcs": funcs, "note": r}
    g = lambda t: m.eval(t, model_completion=True)
    nr = g(nrI).as_long()
    cfg = next((c for c in logh.CONFIGS[8 if umax == 255 else 16] if c[1] == nr), (4294967295, nr))
    cex = {"kind": "mult-log", "bits": 8 if umax == 255 else 16, "max_count": cfg[0], "num_reserved": nr, "width": 1, "depth": 1, "table": [g(cI).as_long()],
           "draws": [float(g(x).as_fraction()) for x in draws.d]}
    return {"status": "cex", "stats": stats.as_dict(), "funcs": funcs, "cex": cex, "replay": replay(cex), "finding_key": "mult-log-compose"}


def ob_mult_log(bits, width, depth, timeout_ms):
    """_add_log*(k, 2) == _add_log*(k, 1); _add_log*(k, 1) with _log_counter abstracted as an uninterpreted function of
    (counter, pointer, value) that satisfies (a) the composition law proved by ob_logcounter_compose and (b) the contract
    'result >= counter' proved by the _log_counter lemma of C05; all cells, columns, num_reserved symbolic"""
    C = cmh.cm()
    stats = common.Stats()
    book = KeyBook()
    LCc = z3.Function("LC_counter", z3.BitVecSort(16), z3.BitVecSort(64), z3.BitVecSort(64), z3.BitVecSort(16))
    LCp = z3.Function("LC_pointer", z3.BitVecSort(16), z3.BitVecSort(64), z3.BitVecSort(64), z3.BitVecSort(64))
    apps = []

    def lc_stub(ex, state, args, sig):
        counter, nr, umax, base, rn, ptr, value = args
        c, p, v = cast(counter, types.uint16).t, cast(ptr, types.uint64).t, cast(value, types.uint64).t
        apps.append((c, p, v))
        return [(state, (Val(types.uint16, LCc(c, p, v)), Val(types.uint64, LCp(c, p, v))))]
    st = State()
    sk = cmh.SymCM(st, "s", bits, width, depth)
    key, kid = book.new_key("key")
    rn = mk_arr(st, "rn", types.uint64, (1,))
    U = cmh.U[bits]
    nr = z3.BitVec("num_reserved", bits)
    base = z3.FP("base", FPS)
    ptr0 = z3.BitVec("ptr0", 64)
    disp = C._add_log16 if bits == 16 else C._add_log8
    ex = Executor(stubs={"fasthash64": book.stub(), "_log_counter": lc_stub})

    def run(state, ptr, v):
        args = [sk.cms, sk.nar, sk.bk, mk_int(types.uint64, width), mk_int(types.uint64, depth), mk_int(U, logh.UMAX[bits]), Val(U, nr), Val(types.float64, base), rn, ptr, key, mk_int(types.uint64, v)]
        return cmh.run1(ex, disp, state, args)
    a, pa = run(st.fork(), Val(types.uint64, ptr0), 2)
    b0, p0 = run(st.fork(), Val(types.uint64, ptr0), 1)
    b, pb = run(b0, p0, 1)
    one, two = z3.BitVecVal(1, 64), z3.BitVecVal(2, 64)
    ax = []
    for (c, p, v) in apps:
        ax.append(z3.UGE(LCc(c, p, v), c))                      # contract: never decreases (C05 lemma)
        ax.append(z3.ULE(zx(LCc(c, p, v), 64) - zx(c, 64), v))  # ... and advances by at most v
        ax.append(z3.ULE(zx(LCc(LCc(c, p, one), LCp(c, p, one), one), 64) - zx(LCc(c, p, one), 64), one))
        ax.append(z3.ULE(zx(LCc(c, p, one), 64) - zx(c, 64), one))
        ax.append(z3.Implies(z3.ULE(c, logh.UMAX[bits]), z3.ULE(LCc(c, p, v), logh.UMAX[bits])))
        ax.append(LCc(c, p, two) == LCc(LCc(c, p, one), LCp(c, p, one), one))   # composition (ob_logcounter_compose)
        ax.append(LCp(c, p, two) == LCp(LCc(c, p, one), LCp(c, p, one), one))
        ax.append(z3.UGE(LCc(LCc(c, p, one), LCp(c, p, one), one), LCc(c, p, one)))
    goal = z3.And(pa.t == pb.t, *[x == y for sid in (sk.cms.sid, sk.nar.sid) for x, y in zip(a.heap[sid], b.heap[sid])])
    assume = list(a.pc) + list(b.pc) + book.range_constraints() + ax
    r, m = common.z3check(assume + [z3.Not(goal)], timeout_ms, stats, label=f"_add_log{bits}(k,2) == (k,1);(k,1) with _log_counter abstracted, {depth}x{width}")
    funcs = sorted(ex.funcs_encoded)
    if r == "unsat":
        return {"status": "proved", "stats": stats.as_dict(), "funcs": funcs}
    if r != "sat":
        return {"status": "unknown", "stats": stats.as_dict(), "funcs": funcs, "note": r}
    nrv = ev(m, nr)
    cfg = next((c for c in logh.CONFIGS[bits] if c[1] == nrv), (4294967295, nrv))
    cex = {"kind": "mult-log", "bits": bits, "max_count": cfg[0], "num_reserved": nrv, "width": width, "depth": depth, "table": [ev(m, c) for c in st.heap[sk.cms.sid]],
           "col_key": [ev(m, c) for c in cmh.keycols(book, kid, width, depth)], "draws": [0.0, 0.9999999]}
    return {"status": "cex", "stats": stats.as_dict(), "funcs": funcs, "cex": cex, "replay": replay(cex), "finding_key": f"mult-log{bits}"}


# ----------------------------------------------------------------------------------------- replay
def _twins(kind):
    M = mods()
    if kind == "linear":
        return lambda: M["cm"].CountMinLinear(3, 2)
    if kind == "log16":
        return lambda: M["cm"].CountMinLog16(3, 2)
    if kind == "log8":
        return lambda: M["cm"].CountMinLog8(3, 2)
    if kind == "hh":
        return lambda: M["hh"].HeavyHitters(2, 2, 3, phi=0.1)
    return lambda: M["hll"].HyperLogLog(7, 5)


def _state(sk):
    import numpy as np
    out = []
    for nm in ("cms", "n_added_records", "lhh", "lhh_count", "key_lens", "registers"):
        if hasattr(sk, nm):
            out.append((nm, np.array(getattr(sk, nm)).tolist()))
    if hasattr(sk, "rand_ptr"):
        out.append(("rand_ptr", int(sk.rand_ptr)))
    return out


def replay(cex):
    import numpy as np
    k = cex["kind"]
    if k == "ngram":
        kind, L = cex["sketch"], cex["key_len"]
        keys = [bytes.fromhex(cex["key"])] if cex.get("key") else []
        keys += [bytes((37 * i + 11) % 251 + 1 for i in range(L)), bytes(L), bytes([255] * L)]
        ns = sorted(set([cex["ngram"], 1, 2, 3, L - 1, L, L + 1, L + 2, 17, 1 << 33]))
        fails = []
        for key in keys:
            for n in ns:
                if n < 1:
                    continue
                mk = _twins(kind)
                a, b = mk(), mk()
                for s in (a, b):
                    if hasattr(s, "rand_nums"):
                        s.rand_nums[:] = np.linspace(0.0, 0.999, 2048)
                        s.rand_ptr = 0
                        s.cms[:] = s.uint_maxval - 3  # above the reserved range so that draws are consumed
                a.add_ngram(key, n)
                wins = [key] if len(key) <= n else [key[i:i + n] for i in range(len(key) - n + 1)]
                for wdw in wins:
                    b.add(wdw)
                if _state(a) != _state(b):
                    fails.append(f"{kind}: add_ngram(key of {len(key)} bytes, n={n}) differs from adding its {len(wins)} window(s) one by one")
                    break
            if len(fails) >= 3:
                break
        return {"reproduced": bool(fails), "how": "twin real sketches (log: identical installed draws): add_ngram(key, n) vs add() of every window; full public state compared", "failed_clauses": fails}
    if k == "mult-linear":
        w, d = cex["width"], cex["depth"]
        keys = cmh.realise_keys(w, d, [cex["col_key"]])
        C = cmh.cm()
        a, b = C.CountMinLinear(w, d), C.CountMinLinear(w, d)
        for s in (a, b):
            s.cms[:] = np.array(cex["table"], np.uint32).reshape(d, w)
        a.add(keys[0], cex["v"] + 1)
        b.add(keys[0], cex["v"])
        b.add(keys[0], 1)
        bad = _state(a) != _state(b)
        return {"reproduced": bad, "how": "twin CountMinLinear with the table installed: add(k, v+1) vs add(k, v); add(k, 1)"}
    if k == "mult-hh":
        Hm = mods()["hh"]
        key = bytes.fromhex(cex["key"])
        res = []
        for seq in ([cex["v"] + 1], [cex["v"], 1]):
            s = Hm.HeavyHitters(1, 2, cex["mkl"], phi=0.5)
            if cex["stored_count"]:
                s.add(bytes.fromhex(cex["stored"]), cex["stored_count"])
            for v in seq:
                s.add(key, v)
            res.append((s.query(10, 0), int(s.n_added())))
        return {"reproduced": res[0] != res[1], "how": "real history: add(stored key, c) then add(k, v+1) vs add(k, v); add(k, 1); query(10, 0) and n_added compared", "observed": [str(r) for r in res]}
    if k == "mult-log":
        res = []
        for seq in ([2], [1, 1]):
            s = logh.make_real_log(cex["bits"], cex["width"], cex["depth"], cex["max_count"], cex["num_reserved"])
            s.cms[:] = np.array(cex["table"], s.cms.dtype).reshape(cex["depth"], cex["width"])
            kk = b"k"
            if cex.get("col_key") and cex["width"] > 1:
                found = cmh.realise_keys(cex["width"], cex["depth"], [cex["col_key"]])
                kk = found[0] if found else b"k"
            outs = []
            for dr in (cex["draws"], [0.0, 0.0], [0.0, 0.9999999], [0.9999999, 0.0], [0.5, 0.5]):
                s2 = logh.make_real_log(cex["bits"], cex["width"], cex["depth"], cex["max_count"], cex["num_reserved"])
                s2.cms[:] = np.array(cex["table"], s2.cms.dtype).reshape(cex["depth"], cex["width"])
                for j, x in enumerate(dr):
                    s2.rand_nums[j] = x
                s2.rand_ptr = 0
                for v in seq:
                    s2.add(kk, v)
                outs.append(_state(s2))
            res.append(outs)
        return {"reproduced": res[0] != res[1], "how": "twin log sketches, identical installed draws (model's and four fixed patterns): add(k,2) vs add(k,1); add(k,1)"}
    return wrun.replay_generic(cex)


def main():
    t0 = time.time()
    tier = common.get_tier()
    mods()
    cmh.cm()
    tmo = 600000 if tier == "quick" else 1200000
    maxL = 8 if tier == "quick" else 12
    obs = []
    for kind in ("linear", "log16", "log8", "hh", "hll"):
        for L in range(0, maxL + 1):
            for n in list(range(1, L)) + [None]:
                if tier == "quick" and n is not None and L > 5 and n not in (1, 2, L - 1):
                    continue
                obs.append(common.Ob(f"_add_ngram[{kind}] key length {L}, ngram {'>= ' + str(max(L, 1)) + ' (symbolic)' if n is None else n}", ob_ngram, (kind, L, n, tmo), hard_s=tmo / 1000 * 3 + 120,
                                     bounds={"sketch": kind, "key_len": L, "ngram": "symbolic >= len" if n is None else n}))
    # very long keys, three windows each: a key length narrowed to 8 or 16 bits inside a kernel changes the windows
    for kind in ("linear", "log16", "log8", "hh", "hll"):
        for (L, n) in ((260, 258), (65540, 65538)):
            obs.append(common.Ob(f"_add_ngram[{kind}] key length {L}, ngram {n} (long key, 3 windows)", ob_ngram, (kind, L, n, tmo), hard_s=tmo / 1000 * 3 + 300,
                                 bounds={"sketch": kind, "key_len": L, "ngram": n}))
    for (w, d) in ((1, 1), (2, 2), (3, 2)):
        obs.append(common.Ob(f"multiplicity: linear add(k,v+1) == add(k,v);add(k,1), {d}x{w}", ob_mult_linear, (w, d, tmo), hard_s=tmo / 1000 + 120, bounds={"width": w, "depth": d, "v": "all uint32 < 2^32-1"}))
    for mkl in (1, 2):
        for Ly in range(0, mkl + 2):
            obs.append(common.Ob(f"multiplicity: heavy hitters add(k,v+1) == add(k,v);add(k,1), mkl={mkl} len={Ly}", ob_mult_hh, (mkl, Ly, tmo), hard_s=tmo / 1000 + 120, bounds={"max_key_len": mkl, "key_len": Ly}))
    for umax in (255, 65535):
        obs.append(common.Ob(f"multiplicity: _log_counter(c,2) == two single steps, ceiling {umax} (real-idealised, symbolic counter/num_reserved/base/draws)", ob_logcounter_compose, (umax, tmo), hard_s=tmo / 1000 + 120, bounds={"uint_maxval": umax}))
    for bits in (8, 16):
        for (w, d) in ((1, 1), (2, 2), (3, 2)):
            obs.append(common.Ob(f"multiplicity: log{bits} add(k,2) == add(k,1);add(k,1) with _log_counter abstracted, {d}x{w}", ob_mult_log, (bits, w, d, tmo), hard_s=tmo / 1000 + 120, bounds={"bits": bits, "width": w, "depth": d}))
    obs.append(common.Ob("witness: ngram window branch reachable", ob_ngram_witness, (), kind="witness", hard_s=200))
    nk = len(obs)
    wobs, wmeta = wrun.obligations("c12", tier)
    obs += wobs
    results = common.run_obligations(obs, progress=os.environ.get("VERIF_VERBOSE") == "1")
    funcs = set()
    for r in results:
        funcs.update(r.get("funcs") or [])
    return common.finish(
        PID, tier, "model_checking", obs, results, t0=t0, funcs=funcs,
        bounds={"ngram_key_lengths": f"0..{maxL} (bytes symbolic)", "ngram": "every n in 1..len-1 concretely (quick: a subset for len > 5), all n >= len symbolically up to 2^64-1",
                "multiplicity": "v symbolic (linear, heavy hitters); v = 2 with configuration-concrete log sketches", "engine_K_obligations": nk, "engine_W": wmeta},
        stubs=["inner _add* kernels recorded (call trace) in the ngram obligations", "fasthash64 -> uninterpreted columns", "_rand -> j-th draw of a symbolic batch"] + wmeta.get("stubs", []),
        assumptions=["Numba lowering preserves typed-IR semantics", "the multiplicity decomposition for general v follows by induction on v from the v+1 lemma"] + wmeta.get("assumptions", []),
        outside=["ngram = 0 (outside the documented domain)", "keys longer than the listed lengths (the window loop is uniform)"] + wmeta.get("outside", []),
        explanation="call-trace equality of the ngram kernels with the window list; two-run state equality for the multiplicity lemmas; CrossHair over the Python entry points",
        technique="symbolic execution of Numba typed IR + z3 (call-trace and two-run equivalence queries); CrossHair (z3) over the class glue with shimmed numpy/numba")


if __name__ == "__main__":
    sys.exit(main())
