"""C13: query(k, threshold) is the exact, fresh top-k of the sketch's stored counts.

Engine W (checks/w_c13.py, CrossHair): shape/order/threshold/completeness of the real query() per alias pattern, and
lemma A (a second query rebuilds exactly when needed: equals a cache-free sketch's answer for every threshold pair,
explicit or default, with or without growth of n_added).
Engine K (here): lemma B -- a mutator either strictly increases n_added or leaves the tables untouched: _add with v = 0
changes nothing and with v > 0 adds v to n_added; _merge adds other's n_added, and an operand whose cells are all empty
changes nothing; the invariant `every count <= n_added` (so n_added == 0 means empty) is preserved by both.
Lemma C (load regenerates the cache once, after copying) is a condition of C10's harness."""
import os
import sys

sys.path.insert(0, os.path.dirname(os.path.dirname(os.path.abspath(__file__))))
import warnings

warnings.filterwarnings("ignore")
import z3
from engine import common, wcheck, wrun, hhh
from engine.kit import KeyBook, zx, ev, MAX32
from engine.nbsym import Executor, State

PID = "C13"


def replay(cex):
    return wrun.replay_generic(cex)


def ob_add_lemma_b(mkl, Ly, timeout_ms):
    stats = common.Stats()
    book = KeyBook()
    ex = Executor(stubs={"fasthash64": book.stub()})
    st = State()
    sk = hhh.SymHH(st, "s", 2, 2, mkl)
    y = hhh.new_key("y", Ly)
    v = z3.BitVec("v", 32)
    pre = dict(st.heap)
    post = hhh.add(ex, st, sk, y, v)
    same = z3.And(*[a == b for sid in (sk.lhh.sid, sk.cnt.sid, sk.kl.sid) for a, b in zip(post.heap[sid], pre[sid])])
    na0, na1 = pre[sk.nar.sid][0], post.heap[sk.nar.sid][0]
    inv0 = z3.And(*[z3.ULE(zx(c, 64), na0) for c in pre[sk.cnt.sid]])
    inv1 = z3.And(*[z3.ULE(zx(c, 64), na1) for c in post.heap[sk.cnt.sid]])
    goals = [("add with multiplicity 0 changes no table", z3.Implies(v == 0, same)),
             ("n_added grows by exactly v", na1 == na0 + zx(v, 64)),
             ("every count <= n_added is preserved", z3.Implies(z3.And(inv0, z3.ULT(na0, 1 << 62)), inv1))]
    funcs = sorted(ex.funcs_encoded)
    for name, g in goals:
        r, m = common.z3check(list(post.pc) + book.range_constraints() + [sk.rep_inv(pre), z3.Not(g)], timeout_ms, stats, label=f"lemma B _add mkl={mkl} len={Ly}: {name}")
        if r != "unsat":
            return {"status": "unknown" if r != "sat" else "cti", "stats": stats.as_dict(), "funcs": funcs, "note": f"{r} on {name}"}
    return {"status": "proved", "stats": stats.as_dict(), "funcs": funcs}


def ob_merge_lemma_b(mkl, timeout_ms):
    stats = common.Stats()
    ex = Executor()
    st = State()
    a = hhh.SymHH(st, "a", 2, 2, mkl)
    b = hhh.SymHH(st, "b", 2, 2, mkl)
    pre = dict(st.heap)
    post = hhh.merge(ex, st, a, b)
    same = z3.And(*[x == y for sid in (a.lhh.sid, a.cnt.sid, a.kl.sid) for x, y in zip(post.heap[sid], pre[sid])])
    empty_b = z3.And(*[c == 0 for c in pre[b.cnt.sid]])
    na, nb, n1 = pre[a.nar.sid][0], pre[b.nar.sid][0], post.heap[a.nar.sid][0]
    inva = z3.And(*[z3.ULE(zx(c, 64), na) for c in pre[a.cnt.sid]])
    invb = z3.And(*[z3.ULE(zx(c, 64), nb) for c in pre[b.cnt.sid]])
    inv1 = z3.And(*[z3.ULE(zx(c, 64), n1) for c in post.heap[a.cnt.sid]])
    goals = [("merging a sketch whose cells are all empty changes no count and no reported key", z3.Implies(empty_b, z3.And(*[x == y for x, y in zip(post.heap[a.cnt.sid], pre[a.cnt.sid])]))),
             ("... and keeps stored keys of non-empty cells", z3.Implies(empty_b, z3.And(*[z3.Implies(pre[a.cnt.sid][i] != 0, z3.And(post.heap[a.kl.sid][i] == pre[a.kl.sid][i], *[post.heap[a.lhh.sid][i * mkl + j] == pre[a.lhh.sid][i * mkl + j] for j in range(mkl)])) for i in range(4)]))),
             ("n_added is the sum", n1 == na + nb),
             ("every count <= n_added is preserved", z3.Implies(z3.And(inva, invb, z3.ULT(na, 1 << 62), z3.ULT(nb, 1 << 62)), inv1))]
    funcs = sorted(ex.funcs_encoded)
    for name, g in goals:
        r, m = common.z3check(list(post.pc) + [a.rep_inv(pre), b.rep_inv(pre), z3.Not(g)], timeout_ms, stats, label=f"lemma B _merge mkl={mkl}: {name}")
        if r != "unsat":
            return {"status": "unknown" if r != "sat" else "cti", "stats": stats.as_dict(), "funcs": funcs, "note": f"{r} on {name}"}
    return {"status": "proved", "stats": stats.as_dict(), "funcs": funcs}


def extra(tier):
    hhh.hh()
    tmo = 600000 if tier == "quick" else 1200000
    obs = []
    for mkl in ((1, 2) if tier == "quick" else (1, 2, 3)):
        for Ly in range(0, mkl + 2):
            obs.append(common.Ob(f"lemma B: _add, mkl={mkl} len={Ly}", ob_add_lemma_b, (mkl, Ly, tmo), hard_s=tmo / 1000 * 3 + 120, bounds={"width": 2, "depth": 2, "max_key_len": mkl, "key_len": Ly}))
        obs.append(common.Ob(f"lemma B: _merge, mkl={mkl}", ob_merge_lemma_b, (mkl, tmo), hard_s=tmo / 1000 * 4 + 120, bounds={"width": 2, "depth": 2, "max_key_len": mkl}))
    return obs


if __name__ == "__main__":
    sys.exit(wcheck.run(
        PID, "c13",
        bounds={"sketch": "width 1 (one column), depth 2, max_key_len 2", "stored keys": "6 enumerated alias patterns (distinct, same, NUL alias, empty key, all-NUL, empty+all-NUL)",
                "numbers": "both counts and the threshold over all of uint32, k in 1..3; lemma A: both thresholds over all of uint32 or default, with/without growth",
                "lemma_B": "heavy-hitter kernels at 2x2, max_key_len 1..2 (3 thorough), key bytes symbolic"},
        explanation="real query()/generate_candidate_set()/__getitem__ under CrossHair per alias pattern; freshness decomposed into lemma A (W), lemma B (K) and lemma C (C10)",
        encoded=["HeavyHitters.query", "HeavyHitters.generate_candidate_set", "HeavyHitters.__getitem__", "heavyhitters._max_count (Python source under the shim)", "heavyhitters._add / _merge (typed IR, lemma B)"],
        extra_obs=extra,
        technique="CrossHair symbolic execution (z3) of the real query/cache code per enumerated alias pattern + symbolic execution of Numba typed IR for the n_added/tables lemma"))
