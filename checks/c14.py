"""C14: row hashes are independent, so depth buys the documented exp(-depth) bound -- REDUCED CLAIM.

The exp(-depth) statement is about the distribution of FastHash over random keys and is not decided here (see
DESIGN.md section 7).  Two necessary conditions are decided by the solver:
 (1) seeds: in every kernel that places a key (count-min query/add x3 kinds, heavy hitters _add/_max_count) the column of
     row r is fasthash64(key, s_r) % width with the seeds s_0..s_{d-1} pairwise distinct FOR EVERY width (symbolic) --
     hash stubbed, depth 8;
 (2) non-degeneracy on the REAL placement kernels with the REAL fasthash64 inlined (precise 64-bit multiplication, 8-byte
     symbolic keys): for row pairs (a, b) and widths W the solver exhibits two keys that collide in row a but not in row b; `unsat` would mean the rows are
     functionally dependent;
 (4) joint coverage on the REAL placement kernels: every pair (column in row a, column in row b) is owned by some key
     (concrete witnesses on real sketches, the solver for cells without one; `unsat` = unreachable cell, replayed);
 (3) sensitivity on the REAL fasthash64: for every byte position of keys of the listed lengths the solver exhibits two byte
     values with different hashes; `unsat` = keys differing only there share their cell in EVERY row (replayed)."""
import os
import sys
import time

sys.path.insert(0, os.path.dirname(os.path.dirname(os.path.abspath(__file__))))
import warnings

warnings.filterwarnings("ignore")
import z3
from engine import common, cmh, hhh, logh
from engine.kit import mk_arr, ev, zx, MAX32
from engine.nbsym import Executor, State, SBytes, Val, HashToken, types, cast, mk_int, Unsupported, FPS

PID = "C14"
DEPTH = 8
OTHER_DEPTHS = (2, 3, 5, 6, 7)
W0 = 4  # physical width of the dense table; the kernel's `width` argument is symbolic in 1..W0


class SeedRecorder:
    """hash stub that records (key identity, seed term) and hands out a column < width for a SYMBOLIC width"""

    def __init__(self):
        self.calls = []
        self.cols = {}

    def stub(self):
        me = self

        def hstub(ex, state, args, sig):
            key, seed = args
            seed = cast(seed, types.uint64)
            ident = tuple(c.get_id() for c in key.cells) + (len(key),)
            rec = {"key": ident, "seed": z3.simplify(seed.t), "mods": []}
            me.calls.append(rec)

            def colfn_sym(w_term, rec=rec):
                k = (rec["key"], rec["seed"].get_id())
                if k not in me.cols:
                    me.cols[k] = z3.BitVec(f"col{len(me.cols)}", 64)
                rec["mods"].append(w_term)
                return me.cols[k]
            tok = HashToken(types.uint64, None, seed, None)

            def mod(ex_, state_, w, rt, tok=tok):
                c = colfn_sym(z3.simplify(w.t))
                state_.pc.append(z3.ULT(c, w.t))
                return Val(rt, c)
            tok.mod = mod
            return [(state, tok)]
        return hstub


def _run_kernel(kind):
    """returns (recorder, width term, post state, ex)"""
    rec = SeedRecorder()
    ex = Executor(stubs={"fasthash64": rec.stub(), "_log_counter": lambda e, s, a, sig: [(s, (cast(a[0], types.uint16), cast(a[5], types.uint64)))]})
    st = State()
    width = z3.BitVec("width", 64)
    st.pc += [z3.UGE(width, 1), z3.ULE(width, W0)]
    key = SBytes([z3.BitVec(f"k{i}", 8) for i in range(3)])
    Wv, Dv = Val(types.uint64, width), mk_int(types.uint64, DEPTH)
    C, Hm = cmh.cm(), hhh.hh()
    if kind.startswith("cm"):
        bits = {"cm_linear": 32, "cm_log16": 16, "cm_log8": 8}[kind.rsplit("-", 1)[0]]
        sk = cmh.SymCM(st, "s", bits, W0, DEPTH)
        U = cmh.U[bits]
        which = kind.rsplit("-", 1)[1]
        if bits == 32:
            if which == "query":
                disp, args = C._query_linear, [sk.cms, sk.bk, Wv, Dv, mk_int(U, MAX32), key]
            else:
                disp, args = C._add_linear, [sk.cms, sk.nar, sk.bk, Wv, Dv, mk_int(U, MAX32), key, Val(types.uint32, z3.BitVec("v", 32))]
        else:
            umax = logh.UMAX[bits]
            if which == "query":
                disp, args = (C._query_log16 if bits == 16 else C._query_log8), [sk.cms, sk.bk, Wv, Dv, mk_int(U, umax), key]
            else:
                rn = mk_arr(st, "rn", types.uint64, (1,))
                disp = C._add_log16 if bits == 16 else C._add_log8
                args = [sk.cms, sk.nar, sk.bk, Wv, Dv, mk_int(U, umax), mk_int(U, 3), Val(types.float64, z3.FPVal(1.5, FPS)), rn, mk_int(types.uint64, 0), key, Val(types.uint64, z3.BitVec("v", 64))]
    else:
        sk = hhh.SymHH(st, "s", W0, DEPTH, 3)
        if kind == "hh-add":
            disp, args = Hm._add, [sk.lhh, sk.cnt, sk.kl, sk.nar, Wv, Dv, mk_int(types.uint64, 3), mk_int(types.uint32, MAX32), key, Val(types.uint32, z3.BitVec("v", 32))]
        else:
            import inspect
            names = list(inspect.signature(Hm._max_count.py_func).parameters)
            pool = {"lhh": sk.lhh, "lhh_count": sk.cnt, "key_lens": sk.kl, "width": Wv, "depth": Dv, "max_key_len": mk_int(types.uint64, 3), "key": key, "key_len": mk_int(types.uint8, 3)}
            disp, args = Hm._max_count, [pool[n] for n in names]
    outs = ex.call_dispatcher(disp, st, args)
    outs = [(s, v) for s, v in outs if not (isinstance(v, tuple) and v and v[0] == "raise")]
    if len(outs) != 1:
        raise Unsupported(f"{kind}: {len(outs)} outcomes")
    return rec, width, outs[0][0], ex, key


KINDS = ["cm_linear-query", "cm_linear-add", "cm_log16-query", "cm_log16-add", "cm_log8-query", "cm_log8-add", "hh-add", "hh-maxcount"]


def ob_seeds(kind, timeout_ms, depth=None):
    """depth: the sketch depth the kernel is unrolled for (default DEPTH = 8); the property's scope names depths 2..8 and a
    seed expression may depend on the depth (e.g. a mask that is the identity only for powers of two)"""
    global DEPTH
    saved = DEPTH
    DEPTH = depth or saved
    try:
        return _ob_seeds(kind, timeout_ms)
    finally:
        DEPTH = saved


def _ob_seeds(kind, timeout_ms):
    stats = common.Stats()
    rec, width, post, ex, key = _run_kernel(kind)
    funcs = sorted(ex.funcs_encoded)
    ident = tuple(c.get_id() for c in key.cells) + (3,)
    calls = rec.calls
    problems = []
    if len(calls) != DEPTH:
        problems.append(f"{len(calls)} hash calls for depth {DEPTH}")
    if any(c["key"] != ident for c in calls):
        problems.append("a hash call does not receive the key")
    if any(len(c["mods"]) != 1 for c in calls):
        problems.append("a hash value is not reduced modulo the width exactly once")
    if problems:
        cex = {"kind": "seeds", "kernel": kind, "problems": problems, "width": 3, "depth": DEPTH}
        return {"status": "cex", "stats": stats.as_dict(), "funcs": funcs, "cex": cex, "replay": replay(cex), "finding_key": "seeds-structure"}
    goals = [("every hash value is reduced modulo the sketch's width", z3.And(*[c["mods"][0] == width for c in calls])),
             ("the row seeds are pairwise distinct for every width", z3.Distinct(*[c["seed"] for c in calls]) if len(calls) > 1 else z3.BoolVal(True))]
    for name, g in goals:
        r, m = common.z3check(list(post.pc) + [z3.Not(g)], timeout_ms, stats, label=f"{kind}: {name}")
        if r == "unsat":
            continue
        if r != "sat":
            return {"status": "unknown", "stats": stats.as_dict(), "funcs": funcs, "note": r}
        cex = {"kind": "seeds", "kernel": kind, "width": ev(m, width), "seeds": [ev(m, c["seed"]) for c in calls], "clause": name, "depth": DEPTH}
        return {"status": "cex", "stats": stats.as_dict(), "funcs": funcs, "cex": cex, "replay": replay(cex), "finding_key": "seeds-collide"}
    return {"status": "proved", "stats": stats.as_dict(), "funcs": funcs}


def _real_hash_term(bs, seed):
    from sketchnu import hashes
    ex = Executor()
    ex.uf_mul = False
    outs = ex.call_dispatcher(hashes.fasthash64, State(), [SBytes(bs), mk_int(types.uint64, seed)])
    return outs[0][1].t, ex


def _kernel_cols(kind, bs, W):
    """columns the REAL placement kernel (hash inlined, precise multiplication) assigns to key `bs` in a width-W sketch:
    the query kernels leave them in their `buckets` argument"""
    C = cmh.cm()
    ex = Executor()
    ex.uf_mul = False
    st = State()
    bits = {"cm_linear": 32, "cm_log16": 16, "cm_log8": 8}[kind]
    sk = cmh.SymCM(st, "s", bits, W, DEPTH)
    U = cmh.U[bits]
    Wv, Dv = mk_int(types.uint64, W), mk_int(types.uint64, DEPTH)
    disp = {32: C._query_linear, 16: C._query_log16, 8: C._query_log8}[bits]
    maxv = MAX32 if bits == 32 else logh.UMAX[bits]
    outs = ex.call_dispatcher(disp, st, [sk.cms, sk.bk, Wv, Dv, mk_int(U, maxv), SBytes(bs)])
    outs = [(s_, v) for s_, v in outs if not (isinstance(v, tuple) and v and v[0] == "raise")]
    if len(outs) != 1:
        raise Unsupported(f"{kind}: {len(outs)} outcomes")
    post = outs[0][0]
    return [zx(c, 64) for c in post.heap[sk.bk.sid]], ex


def _probe_cols(kind, W, keys):
    """columns owned by each key, read off real sketches: add the key to an empty sketch, locate the non-zero cell per row"""
    import numpy as np
    C = cmh.cm()
    cls = {"cm_linear": C.CountMinLinear, "cm_log16": C.CountMinLog16, "cm_log8": C.CountMinLog8}[kind]
    out = []
    for k in keys:
        s_ = cls(W, DEPTH)
        s_.add(k)
        t = np.array(s_.cms)
        out.append([int(np.argmax(t[r])) for r in range(DEPTH)])
    return out


def ob_independent(kind, a, b, W, timeout_ms):
    """witness query on the real placement kernel with the real fasthash64: keys colliding in row a but not in row b
    (and vice versa).  `unsat` = row b's column is a function of row a's column at this width."""
    stats = common.Stats()
    k1 = [z3.BitVec(f"a{i}", 8) for i in range(8)]
    k2 = [z3.BitVec(f"b{i}", 8) for i in range(8)]
    (c1, ex), (c2, _) = _kernel_cols(kind, k1, W), _kernel_cols(kind, k2, W)
    funcs = sorted(ex.funcs_encoded)
    ca1, ca2, cb1, cb2 = c1[a], c2[a], c1[b], c2[b]
    for (x, y, lab, ra, rb) in ((ca1 == ca2, cb1 != cb2, f"collide in row {a}, differ in row {b}", a, b), (cb1 == cb2, ca1 != ca2, f"collide in row {b}, differ in row {a}", b, a)):
        r, m = common.z3check([x, y], timeout_ms, stats, label=f"{kind} rows ({a},{b}) width {W}: {lab}")
        if r == "unsat":
            cex = {"kind": "dependent-rows", "kernel": kind, "rows": [ra, rb], "width": W}
            return {"status": "cex", "stats": stats.as_dict(), "funcs": funcs, "cex": cex, "replay": replay(cex), "finding_key": "rows-dependent"}
        if r != "sat":
            return {"status": "unknown", "stats": stats.as_dict(), "funcs": funcs, "note": f"{r} on {lab}"}
        K1 = bytes(ev(m, c) for c in k1)
        K2 = bytes(ev(m, c) for c in k2)
        p1, p2 = _probe_cols(kind, W, [K1, K2])
        if not (p1[ra] == p2[ra] and p1[rb] != p2[rb]):
            return {"status": "unknown", "stats": stats.as_dict(), "funcs": funcs, "note": f"witness keys do not behave on the real sketch: {p1} {p2}"}
    return {"status": "proved", "stats": stats.as_dict(), "funcs": funcs, "note": "witness keys confirmed on real sketches"}


def ob_joint(kind, a, b, W, timeout_ms):
    """(4) joint coverage, a necessary condition for independent uniform rows: every pair (column in row a, column in
    row b) is owned by some 8-byte key.  Witnesses are existential: a concrete key placed in a real sketch settles a
    cell; for every cell without such a witness (and for 4 arbitrary cells in any case) the solver is asked on the real
    placement kernel with the real fasthash64 -- `unsat` = no 8-byte key at all reaches the cell (replayed with a larger
    sample on real sketches)."""
    import random
    stats = common.Stats()
    rnd = random.Random(W * 100 + a * 10 + b)
    keys = [bytes(rnd.randrange(256) for _ in range(8)) for _ in range(max(4000, 40 * W * W))]
    cols = _probe_cols(kind, W, keys)
    seen = set((c[a], c[b]) for c in cols)
    todo = [(x, y) for x in range(W) for y in range(W) if (x, y) not in seen]
    extra = [(rnd.randrange(W), rnd.randrange(W)) for _ in range(4)]
    k1 = [z3.BitVec(f"a{i}", 8) for i in range(8)]
    c1, ex = _kernel_cols(kind, k1, W)
    funcs = sorted(ex.funcs_encoded)
    for n, (x, y) in enumerate(todo[:24] + extra):
        r, m = common.z3check([c1[a] == x, c1[b] == y], timeout_ms, stats, label=f"{kind} width {W}: some key owns column {x} in row {a} and column {y} in row {b}")
        if r == "unsat":
            cex = {"kind": "joint-cell", "kernel": kind, "rows": [a, b], "width": W, "cell": [x, y], "cells_without_concrete_witness": len(todo)}
            return {"status": "cex", "stats": stats.as_dict(), "funcs": funcs, "cex": cex, "replay": replay(cex), "finding_key": "joint-cell-unreachable"}
        if r != "sat":
            return {"status": "unknown", "stats": stats.as_dict(), "funcs": funcs, "note": f"{r} on cell {(x, y)}"}
        K1 = bytes(ev(m, c) for c in k1)
        p1 = _probe_cols(kind, W, [K1])[0]
        if (p1[a], p1[b]) != (x, y):
            return {"status": "unknown", "stats": stats.as_dict(), "funcs": funcs, "note": f"solver witness {K1.hex()} lands in {(p1[a], p1[b])} on the real sketch, not {(x, y)}"}
    return {"status": "proved", "stats": stats.as_dict(), "funcs": funcs, "note": f"{len(seen)} of {W * W} cells witnessed by concrete keys on real sketches, {len(todo[:24]) + 4} by the solver"}


def _ctx_bytes(L):
    import random
    rnd = random.Random(1000 + L)
    return [rnd.randrange(256) for _ in range(L)]


def ob_sensitive(L, timeout_ms):
    """(3) every byte of a key influences the real fasthash64: for each position i of a key of length L the solver
    exhibits two values of byte i (other bytes fixed, row seed i % 8) with different 64-bit hashes.  `unsat` means keys
    differing only there own the same cell in every row (fully dependent rows for such pairs); replayed on a real sketch."""
    stats = common.Stats()
    from sketchnu import hashes
    bs = [z3.BitVec(f"k{i}", 8) for i in range(L)]
    sd = z3.BitVec("rowseed", 64)
    ex = Executor(loop_bound=L // 4 + 8)
    # multiplication uninterpreted: `unsat` (no influence for ANY multiplication function) is sound for the real bvmul,
    # and every `sat` witness is confirmed below by running the two keys through the jitted hash
    ex.uf_mul = True
    outs = ex.call_dispatcher(hashes.fasthash64, State(), [SBytes(bs), Val(types.uint64, sd)])
    if len(outs) != 1:
        return {"status": "unknown", "stats": stats.as_dict(), "note": f"{len(outs)} outcomes"}
    h = outs[0][1].t
    funcs = sorted(ex.funcs_encoded)
    ctx = _ctx_bytes(L)
    alt = z3.BitVec("k_alt", 8)
    for i in range(L):
        sub = [(bs[j], z3.BitVecVal(ctx[j], 8)) for j in range(L) if j != i] + [(sd, z3.BitVecVal(i % DEPTH, 64))]
        h1 = z3.simplify(z3.substitute(h, *sub))
        h2 = z3.substitute(h1, (bs[i], alt))
        r, m = common.z3check([bs[i] != alt, h1 != h2], timeout_ms, stats, label=f"fasthash64 len {L}: byte {i} influences the hash (row seed {i % DEPTH})")
        if r == "unsat":
            cex = {"kind": "insensitive-byte", "key_len": L, "pos": i, "context_hex": bytes(ctx).hex(), "row_seed": i % DEPTH}
            return {"status": "cex", "stats": stats.as_dict(), "funcs": funcs, "cex": cex, "replay": replay(cex), "finding_key": f"insensitive-byte:len={L}"}
        if r != "sat":
            return {"status": "unknown", "stats": stats.as_dict(), "funcs": funcs, "note": f"{r} at byte {i}"}
        k1 = bytes(ctx[:i] + [ev(m, bs[i])] + ctx[i + 1:])
        k2 = bytes(ctx[:i] + [ev(m, alt)] + ctx[i + 1:])
        if int(hashes.fasthash64(k1, i % DEPTH)) == int(hashes.fasthash64(k2, i % DEPTH)):
            # the abstraction's witness is not one for the real multiplication: look for a concrete pair by evaluation
            other = next((v for v in range(256) if v != k1[i] and int(hashes.fasthash64(bytes(ctx[:i] + [v] + ctx[i + 1:]), i % DEPTH)) != int(hashes.fasthash64(k1, i % DEPTH))), None)
            if other is None:
                cex = {"kind": "insensitive-byte", "key_len": L, "pos": i, "context_hex": bytes(ctx).hex(), "row_seed": i % DEPTH}
                rp = replay(cex)
                if rp["reproduced"]:
                    return {"status": "cex", "stats": stats.as_dict(), "funcs": funcs, "cex": cex, "replay": rp, "finding_key": f"insensitive-byte:len={L}"}
                return {"status": "unknown", "stats": stats.as_dict(), "funcs": funcs, "note": f"no witness pair for byte {i} on the jitted function, replay did not reproduce"}
    return {"status": "proved", "stats": stats.as_dict(), "funcs": funcs, "note": f"{L} positions, each witness confirmed on the jitted fasthash64"}


def replay(cex):
    """observable: in a probe sketch of the given width, the columns a key owns in two rows are always equal"""
    import numpy as np
    import random
    C = cmh.cm()
    if cex["kind"] == "joint-cell":
        a, b, W = cex["rows"][0], cex["rows"][1], cex["width"]
        rnd = random.Random(11)
        n = max(20000, 80 * W * W)
        keys = [bytes(rnd.randrange(256) for _ in range(rnd.choice((3, 8, 8, 13)))) for _ in range(n)]
        cols = _probe_cols(cex.get("kernel", "cm_linear"), W, keys)
        seen = set((c[a], c[b]) for c in cols)
        x, y = cex["cell"]
        return {"reproduced": (x, y) not in seen and len(seen) < W * W, "cells_reached": len(seen), "cells": W * W,
                "how": f"{n} random keys (3, 8 and 13 bytes) placed in real empty sketches of width {W}: the pair (row {a} column {x}, row {b} column {y}) is never produced; {W * W - len(seen)} of {W * W} pairs are never produced (expected for independent uniform rows: all are, {n // (W * W)} times each)"}
    if cex["kind"] == "insensitive-byte":
        ctx = list(bytes.fromhex(cex["context_hex"]))
        i = cex["pos"]
        fails = []
        for (v1, v2) in ((0x01, 0xFE), (ctx[i] if i < len(ctx) else 0, (ctx[i] + 1) % 256 if i < len(ctx) else 1)):
            k1, k2 = bytes(ctx[:i] + [v1] + ctx[i + 1:]), bytes(ctx[:i] + [v2] + ctx[i + 1:])
            for w in (127, 64):
                s = C.CountMinLinear(w, DEPTH)
                for _ in range(5):
                    s.add(k1)
                est = int(s.query(k2))
                if est >= 5:
                    fails.append(f"width {w}: 5 adds of a {len(k1)}-byte key give estimate {est} for a different key never added (differs in byte {i}: {v1:#x} vs {v2:#x}): the two keys share their cell in all {DEPTH} rows")
        return {"reproduced": len(fails) >= 4, "how": "CountMinLinear(width, 8): add key1 five times, query key2 that differs in one byte (probability of an all-row collision for an independent hash: width^-8)", "failed_clauses": fails[:4]}
    if cex["kind"] == "dependent-rows":
        a, b, W = cex["rows"][0], cex["rows"][1], cex["width"]
        rnd = random.Random(3)
        keys = [bytes(rnd.randrange(256) for _ in range(8)) for _ in range(300)]
        cols = _probe_cols(cex.get("kernel", "cm_linear"), W, keys)
        pairs = [(i, j) for i in range(len(keys)) for j in range(i + 1, len(keys)) if cols[i][a] == cols[j][a]]
        also = sum(1 for (i, j) in pairs if cols[i][b] == cols[j][b])
        return {"reproduced": len(pairs) >= 20 and also == len(pairs), "pairs_colliding_in_first_row": len(pairs), "of_which_collide_in_second_row": also,
                "how": f"300 random 8-byte keys placed in real empty sketches of width {W}: every pair that shares its cell in row {a} also shares it in row {b} (expected fraction for independent rows: 1/{W})"}
    D = int(cex.get("depth", DEPTH))
    widths = sorted(set([cex.get("width", 3), 3, 5, 7, 63]))
    fails = []
    rnd = random.Random(5)
    kern = cex.get("kernel", "cm_linear-add")
    for w in widths:
        if kern.startswith("hh"):
            mk = lambda: hhh.hh().HeavyHitters(w, D, 3, phi=0.5)
            tab = "lhh_count"
        elif "log16" in kern:
            mk = lambda: C.CountMinLog16(w, D)
            tab = "cms"
        elif "log8" in kern:
            mk = lambda: C.CountMinLog8(w, D)
            tab = "cms"
        else:
            mk = lambda: C.CountMinLinear(w, D)
            tab = "cms"
        cols = []
        for _ in range(200):
            s = mk()
            k = bytes(rnd.randrange(1, 256) for _ in range(3))
            s.add(k)
            t = np.array(getattr(s, tab))
            cols.append([int(np.argmax(t[r])) for r in range(D)])
        for r1 in range(D):
            for r2 in range(r1 + 1, D):
                if w > 1 and all(c[r1] == c[r2] for c in cols):
                    fails.append(f"width {w}: rows {r1} and {r2} place all 200 random keys in the same column (same hash seed)")
                    break
            if fails and fails[-1].startswith(f"width {w}"):
                break
    return {"reproduced": bool(fails), "how": "probe sketches: add one key to an empty sketch, read the column it owns in every row; 200 random keys per width", "failed_clauses": fails[:4]}


def main():
    t0 = time.time()
    tier = common.get_tier()
    cmh.cm()
    hhh.hh()
    tmo = 300000 if tier == "quick" else 1200000
    obs = [common.Ob(f"seeds distinct and modulo width: {k}", ob_seeds, (k, tmo), hard_s=tmo / 1000 * 2 + 120, bounds={"kernel": k, "depth": DEPTH, "width": f"symbolic 1..{W0}"}) for k in KINDS]
    # the other depths of the property's scope (2..8): a seed expression may depend on the depth
    for d in OTHER_DEPTHS:
        for k in (KINDS if tier != "quick" else [k for k in KINDS if k.endswith("query") or k.startswith("hh")]):
            obs.append(common.Ob(f"seeds distinct and modulo width at depth {d}: {k}", ob_seeds, (k, tmo, d), hard_s=tmo / 1000 * 2 + 120, bounds={"kernel": k, "depth": d, "width": f"symbolic 1..{W0}"}))
    pairs = [("cm_linear", 0, 1, 16), ("cm_linear", 3, 7, 16), ("cm_log16", 1, 2, 32), ("cm_log8", 0, 5, 8), ("cm_linear", 2, 6, 13)] if tier == "quick" else \
        [(k, a, b, W) for k in ("cm_linear", "cm_log16", "cm_log8") for (a, b) in ((0, 1), (0, 7), (3, 7), (2, 5), (1, 6)) for W in (2, 16, 61, 128)]
    for (k, a, b, W) in pairs:
        obs.append(common.Ob(f"real {k} placement with real fasthash64: rows {a},{b} not functionally dependent at width {W}", ob_independent, (k, a, b, W, tmo), hard_s=tmo / 1000 * 4 + 120, bounds={"kernel": k, "rows": [a, b], "width": W, "keys": "8 symbolic bytes each"}))
    joint = [("cm_linear", 0, 4, 16), ("cm_linear", 0, 1, 16), ("cm_log16", 2, 6, 16), ("cm_log8", 1, 3, 8), ("cm_linear", 3, 7, 13)] if tier == "quick" else \
        [(k, a, b, W) for k in ("cm_linear", "cm_log16", "cm_log8") for (a, b) in ((0, 4), (0, 1), (2, 6), (1, 3), (3, 7), (0, 2), (5, 7)) for W in (8, 16, 13, 32)]
    for (k, a, b, W) in joint:
        obs.append(common.Ob(f"real {k} placement: every (row {a} column, row {b} column) pair at width {W} is owned by some key", ob_joint, (k, a, b, W, tmo), hard_s=tmo / 1000 * 4 + 300,
                             bounds={"kernel": k, "rows": [a, b], "width": W, "keys": "8 symbolic bytes (solver) / random 8-byte keys (concrete witnesses)"}))
    sensL = (list(range(1, 18)) + [24, 31, 32, 33, 63, 64, 65, 127, 128, 129, 255, 256, 257, 264]) if tier == "quick" else (list(range(1, 131)) + list(range(255, 265)))
    for L in sorted(sensL, reverse=True):
        obs.append(common.Ob(f"real fasthash64: every byte of a {L}-byte key influences the hash", ob_sensitive, (L, tmo), hard_s=tmo / 1000 + 600, bounds={"key_len": L, "positions": "all", "byte values": "symbolic pair", "other bytes": "fixed pseudo-random context"}))
    results = common.run_obligations(obs, progress=os.environ.get("VERIF_VERBOSE") == "1")
    funcs = set()
    for r in results:
        funcs.update(r.get("funcs") or [])
    return common.finish(
        PID, tier, "model_checking", obs, results, t0=t0, funcs=funcs,
        bounds={"seeds": f"depth {DEPTH} (all 8 placing kernels) and depths {list(OTHER_DEPTHS)} (quick: the query and heavy-hitter kernels, which fill `buckets` for the add kernels; thorough: all 8), width symbolic in 1..{W0} (the seed expressions do not depend on the table size), all 8 placing kernels", "independence_witnesses": [list(p) for p in pairs], "byte_sensitivity_key_lengths": sorted(sensL), "joint_coverage": [list(j) for j in joint]},
        stubs=["fasthash64 -> recorder of (key, seed term) in obligation (1); the REAL fasthash64 with precise bvmul in obligation (2)", "_log_counter -> identity (irrelevant to placement)", "64-bit multiplication uninterpreted in obligation (3) (sound for unsat; sat witnesses confirmed on the jitted hash)"],
        assumptions=["C11: fasthash64 is the published FastHash"],
        outside=["the statistical exp(-depth) bound itself and uniformity/independence of FastHash's output distribution: NOT decided (not encodable); only the necessary conditions above are claimed"],
        explanation="necessary conditions for row independence: pairwise distinct per-row seeds for every width in every placing kernel; solver-exhibited key pairs separating rows on the real hash; every key byte influences the hash",
        technique="symbolic execution of Numba typed IR + z3: seed-term distinctness query over a symbolic width; satisfiability witnesses over the real FastHash (QF_BV, precise multiplication)")


if __name__ == "__main__":
    sys.exit(main())
