"""C15: merging incompatible sketches is refused and changes nothing.  Engine W (CrossHair) over checks/w_c15.py."""
import os
import sys
import time

sys.path.insert(0, os.path.dirname(os.path.dirname(os.path.abspath(__file__))))
from engine import common, wrun

PID = "C15"


def replay(cex):
    return wrun.replay_generic(cex)


def main():
    t0 = time.time()
    tier = common.get_tier()
    obs, meta = wrun.obligations("c15", tier)
    results = common.run_obligations(obs, progress=os.environ.get("VERIF_VERBOSE") == "1")
    funcs = set()
    for r in results:
        funcs.update(r.get("funcs") or [])
    return common.finish(
        PID, tier, "model_checking", obs, results, t0=t0, funcs=funcs | {"sketchnu.countmin.CountMinLinear/Log16/Log8.merge", "sketchnu.hyperloglog.HyperLogLog.merge", "sketchnu.heavyhitters.HeavyHitters.merge"},
        bounds={"parameters": "every constructor parameter of both operands symbolic: width <= 10^6 (10^5 heavy hitters), depth <= 64 (16), max_count < 2^64, num_reserved full range, p 7..16, seed < 2^64, max_key_len 1..255, phi in {None, 0.25, 0.5}",
                "conditions": meta["conditions"]},
        stubs=meta["stubs"], assumptions=meta["assumptions"], outside=meta["outside"],
        explanation="CrossHair explores the real merge() guards with symbolic parameters; 'Confirmed over all paths' is required for every condition; counterexamples are replayed on the real library",
        technique="CrossHair symbolic execution (z3) of the real merge() methods under a shimmed numpy/numba environment; per-condition exhaustive path exploration")


if __name__ == "__main__":
    sys.exit(main())
