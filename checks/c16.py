"""C16: shared-memory and attached sketches behave exactly like in-memory ones.  Engine W over checks/w_c16.py (layout
and ownership; the operating-system part is outside)."""
import os
import sys

sys.path.insert(0, os.path.dirname(os.path.dirname(os.path.abspath(__file__))))
from engine import wcheck, wrun

PID = "C16"


def replay(cex):
    return wrun.replay_generic(cex)


if __name__ == "__main__":
    sys.exit(wcheck.run(
        PID, "c16",
        bounds={"width": "symbolic 1..100000", "depth": "enumerated {1,3,8} (count-min) / {1,2,3} (heavy hitters)", "max_key_len": "enumerated {1,3,4,255}", "p": "7..9", "seed/max_count/num_reserved": "symbolic, full range"},
        explanation="byte ranges and dtypes viewed by __init__(shared_memory=True), attach_existing_shm and helpers.attach_shared_memory are identical, tile the block and end at its size; writes are shared; parameters rebuilt from .args equal the owner's; owner closes+unlinks, a view only closes",
        encoded=["CountMinLinear/Log16/Log8.__init__/attach_existing_shm/__del__", "HyperLogLog.__init__/attach_existing_shm/__del__", "HeavyHitters.__init__/attach_existing_shm/__del__", "helpers.attach_shared_memory", "countmin.CountMin"]))
