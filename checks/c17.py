"""C17: query() is the documented HyperLogLog++ estimator of the registers.

Engine K over hyperloglog._query, _linear_counting, _estimation_function (typed IR) in real-idealised mode with np.log, `**` and
np.interp uninterpreted: for ALL register arrays of m = 16 cells (kernel level; 128 = p 7 in the thorough tier), thresholds and alpha,
the returned float equals the reference decision tree built from the same uninterpreted numerics; the empty sketch
gives exactly 0.0 (axiom log(1) = +0).  Shipped table facts are concrete data checks."""
import os
import random
import sys
import time

sys.path.insert(0, os.path.dirname(os.path.dirname(os.path.abspath(__file__))))
import warnings

warnings.filterwarnings("ignore")
import z3
from engine import common
from engine.kit import mk_arr, ev, zx
from engine.nbsym import Executor, State, Val, Store, FArrR, types, cast, mk_int, FPS, RM, Unsupported, interp_definition

PID = "C17"
_M = {}
NK = 3     # knots of the symbolic (raw estimate, bias) table handed to the kernel: left of it / two segments / right of it
RAW = z3.Array("raw_table", z3.IntSort(), z3.RealSort())
BIAS = z3.Array("bias_table", z3.IntSort(), z3.RealSort())


def H():
    if "h" not in _M:
        from sketchnu import hyperloglog
        _M["h"] = hyperloglog
    return _M["h"]


def f64(m, t):
    import struct
    v = m.eval(z3.fpToIEEEBV(t), model_completion=True)
    return struct.unpack("<d", struct.pack("<Q", v.as_long()))[0]


def harness(m):
    """real-idealised mode: floats are reals (so a benign re-association of the sum is not flagged), integers are
    mathematical; np.log / ** / np.interp are uninterpreted over the reals"""
    ex = Executor(loop_bound=m + 2, fpmode="real")
    st = State()
    regs = mk_arr(st, "reg", types.uint8, (m,))
    rI = [z3.Int(f"reg{i}") for i in range(m)]
    st.heap[regs.sid] = tuple(z3.Int2BV(k, 8) for k in rI)
    # the shipped tables are kernel ARGUMENTS: symbolic tables of NK knots, raw estimates strictly increasing
    sr, sb = Store(), Store()
    st.heap[sr.id], st.heap[sb.id] = RAW, BIAS
    raw, bias = FArrR(sr.id, NK), FArrR(sb.id, NK)
    st.pc += [z3.Select(RAW, j) < z3.Select(RAW, j + 1) for j in range(NK - 1)]
    thrI = z3.Int("threshold")
    thr = z3.Int2BV(thrI, 64)
    alpha = z3.Real("alpha")
    st.pc += [alpha > 0, thrI >= 0, thrI < (1 << 62)] + [z3.And(k >= 0, k <= 64) for k in rI]
    ex.rI, ex.thrI = rI, thrI
    outs = ex.call_dispatcher(H()._query, st, [regs, mk_int(types.uint64, m), Val(types.uint64, thr), Val(types.float64, alpha), raw, bias])
    outs = [(s, v) for s, v in outs if not (isinstance(v, tuple) and v and v[0] == "raise")]
    if len(outs) != 1:
        raise Unsupported(f"_query: {len(outs)} outcomes")
    post, rv = outs[0]
    return ex, st, post, rv, regs, thr, alpha


def reference(rI, m, thrI, alpha):
    """documented estimator under the same uninterpreted log / pow / interp, over the reals"""
    fm = z3.RealVal(m)
    V = z3.IntVal(m) - z3.Sum([z3.If(k != 0, 1, 0) for k in rI])
    LC = fm * Executor.LOGR(fm / z3.ToReal(V))
    total = z3.RealVal(0)
    for k in rI:
        total = total + Executor.POWR(z3.RealVal(2), -z3.ToReal(k))
    E = alpha * z3.RealVal(m * m) / total
    Ec = E - Executor.INTERPT(E, RAW, BIAS)
    fthr = z3.ToReal(thrI)
    f5m = z3.RealVal(5 * m)
    res = z3.If(V > 0, z3.If(LC > fthr, Ec, LC), z3.If(E <= f5m, Ec, E))
    return res, dict(V=V, LC=LC, E=E, Ec=Ec, fthr=fthr, f5m=f5m, total=total, interp_def=(Executor.INTERPT(E, RAW, BIAS) == interp_definition(E, RAW, BIAS, NK)))


def ob_structure(m, timeout_ms):
    stats = common.Stats()
    ex, st, post, rv, regs, thr, alpha = harness(m)
    cells = list(st.heap[regs.sid])
    ref, parts = reference(ex.rI, m, ex.thrI, alpha)
    funcs = sorted(ex.funcs_encoded)
    pows = [Executor.POWR(z3.RealVal(2), -z3.ToReal(k)) for k in ex.rI]
    assume = list(post.pc) + [p_ > 0 for p_ in pows]   # 2**x > 0
    goal = rv.t == ref
    wraps = [c for _k, c in post.oblig if _k != "float-div-by-zero"]
    # first with np.interp as an uninterpreted function of (x, xp-table, fp-table): congruence alone decides code that
    # hands the estimate and the two tables to np.interp; otherwise add np.interp's definition for every application
    r, mdl = common.z3check_race(assume + [z3.Or(z3.Not(goal), *wraps)], timeout_ms, stats, label=f"_query == reference decision tree, m={m}")
    if r != "unsat":
        assume = assume + list(ex.interp_axioms) + [parts["interp_def"]]
        r, mdl = common.z3check_race(assume + [z3.Or(z3.Not(goal), *wraps)], timeout_ms, stats, label=f"_query == reference decision tree, m={m}, np.interp defined")
    if r == "unsat":
        # registers must not be modified
        r2, _ = common.z3check(assume + [z3.Or(*[x != y for x, y in zip(post.heap[regs.sid], cells)])], timeout_ms, stats, label="query leaves the registers alone")
        if r2 == "unsat":
            return {"status": "proved", "stats": stats.as_dict(), "funcs": funcs}
        return {"status": "unknown", "stats": stats.as_dict(), "funcs": funcs, "note": f"registers-unchanged query: {r2}"}
    if r != "sat":
        return {"status": "unknown", "stats": stats.as_dict(), "funcs": funcs, "note": r}
    mi = lambda t: mdl.eval(t, model_completion=True)
    cex = {"kind": "hll-query", "m": m, "registers": [mi(k).as_long() for k in ex.rI], "threshold_model": str(mi(ex.thrI)),
           "model_branch": {"zero_registers": str(mi(parts["V"])), "LC>thr": str(mi(parts["LC"] > parts["fthr"])), "E<=5m": str(mi(parts["E"] <= parts["f5m"])),
                            "E_vs_table": "below" if z3.is_true(mi(parts["E"] < z3.Select(RAW, 0))) else ("above" if z3.is_true(mi(parts["E"] > z3.Select(RAW, NK - 1))) else "inside")}}
    # the model's log/pow values are artefacts of the uninterpreted functions: search register arrays of the same shape class on the real code
    rp = replay(cex)
    return {"status": "cex", "stats": stats.as_dict(), "funcs": funcs, "cex": cex, "replay": rp, "finding_key": "hll-query-structure"}


def ob_empty(m, timeout_ms):
    """all registers zero => exactly 0.0, with the IEEE facts m/m = 1 and log(1) = +0"""
    stats = common.Stats()
    ex, st, post, rv, regs, thr, alpha = harness(m)
    ax = [Executor.LOGR(z3.RealVal(1)) == 0]
    r, mdl = common.z3check_race(list(post.pc) + ax + [k == 0 for k in ex.rI] + [rv.t != 0], timeout_ms, stats, label=f"empty sketch => 0.0, m={m}")
    funcs = sorted(ex.funcs_encoded)
    if r == "unsat":
        return {"status": "proved", "stats": stats.as_dict(), "funcs": funcs}
    if r != "sat":
        return {"status": "unknown", "stats": stats.as_dict(), "funcs": funcs, "note": r}
    cex = {"kind": "hll-query", "m": m, "registers": [0] * m, "threshold_model": "", "model_branch": {"empty": True}}
    return {"status": "cex", "stats": stats.as_dict(), "funcs": funcs, "cex": cex, "replay": replay(cex), "finding_key": "hll-query-empty"}


def ob_witness(m):
    """all four leaves of the decision tree are reachable in the harness"""
    stats = common.Stats()
    ex, st, post, rv, regs, thr, alpha = harness(m)
    ref, p = reference(ex.rI, m, ex.thrI, alpha)
    base = list(post.pc)
    leaves = [[p["V"] > 0, p["LC"] > p["fthr"]], [p["V"] > 0, z3.Not(p["LC"] > p["fthr"])], [p["V"] == 0, p["E"] <= p["f5m"]], [p["V"] == 0, z3.Not(p["E"] <= p["f5m"])]]
    res = [common.z3check_race(base + lf + [p["total"] > 0], 120000, stats, label=f"witness leaf {i}")[0] for i, lf in enumerate(leaves)]
    ok = all(r == "sat" for r in res)
    return {"status": "witness" if ok else "nowitness", "stats": stats.as_dict(), "note": None if ok else str(res)}


# --------------------------------------------------------------------------------------------- replay
def py_reference(regs, p, threshold, alpha, raw, bias):
    import numpy as np
    m = 1 << p
    V = sum(1 for r in regs if r == 0)
    total = np.float64(0.0)
    for r in regs:
        total += np.float64(2.0) ** (-np.float64(r))
    E = np.float64(alpha) * np.float64(m * m) / total
    Ec = E - np.interp(E, raw, bias)
    if V > 0:
        LC = np.float64(m) * np.log(np.float64(m) / np.float64(V))
        return float(LC) if not (LC > threshold) else float(Ec)
    return float(Ec) if E <= np.float64(5 * m) else float(E)


def candidate_arrays(cex, p, rnd):
    """register arrays on every side of every decision boundary for precision p (the model tells which leaf disagreed)"""
    m = 1 << p
    out = []
    if len(cex["registers"]) == m:
        out.append(list(cex["registers"]))
    out.append([0] * m)
    for z in (1, 2, 3, m // 8, m // 2, m - 1):
        for hi in (1, 2, 3, 5, 9):
            a = [hi] * m
            for i in range(z):
                a[i] = 0
            out.append(a)
            b = [rnd.randrange(1, hi + 2) for _ in range(m)]
            for i in range(z):
                b[rnd.randrange(m)] = 0
            out.append(b)
    for hi in (1, 2, 3, 4, 5, 6, 8, 12, 20, 57):
        out.append([hi] * m)
        out.append([rnd.randrange(1, hi + 1) for _ in range(m)])
        out.append([rnd.randrange(max(1, hi - 1), hi + 1) for _ in range(m)])
    return out


def replay(cex):
    if cex.get("kind") == "w":
        from engine import wrun
        return wrun.replay_generic(cex)
    if cex.get("kind") == "hll-tables":
        return replay_tables(cex)
    return replay_arrays(cex)


def replay_arrays(cex):
    """assign register arrays through the public attribute on ONE reused sketch per precision and compare query() with
    an independent numpy rendering of the documented estimator (relative tolerance 1e-9)"""
    import numpy as np
    Hm = H()
    from sketchnu import hll_constants as K
    rnd = random.Random(7)
    fails = []
    tried = 0
    for p in (7, 8, 10, 12, 16):
        sk = Hm.HyperLogLog(p)
        raw, bias, thr = K.raw_estimate[p - 7, :], K.bias_data[p - 7, :], K.sub_algorithm_threshold[p - 7]
        alpha = 0.7213 / (1.0 + 1.079 / (1 << p))
        for arr in candidate_arrays(cex, p, rnd):
            sk.registers[:] = np.array(arr, np.uint8)
            got = float(sk.query())
            want = py_reference(arr, p, thr, alpha, raw, bias)
            tried += 1
            if not (got == want or abs(got - want) <= 1e-9 * max(1.0, abs(want))):
                z = sum(1 for r in arr if r == 0)
                fails.append(f"p={p} zero_registers={z} max_rank={max(arr)}: query()={got!r} documented estimator={want!r}")
                if len(fails) >= 5:
                    break
        if len(fails) >= 5:
            break
    return {"reproduced": bool(fails), "how": "HyperLogLog(p).registers[:] assigned (one sketch reused per precision), query() vs independent numpy rendering of the documented HLL++ estimator", "arrays_tried": tried, "failed_clauses": fails}


def ob_tables(timeout_ms):
    """the shipped tables as solver constants: every raw-estimate row strictly increasing (np.interp's precondition), and
    each table begins where the linear-counting threshold ends (bias-corrected first knot == threshold, 1% tolerance)"""
    from sketchnu import hll_constants as K
    stats = common.Stats()
    rows = int(K.raw_estimate.shape[0])
    pI, iI = z3.Int("p_row"), z3.Int("i")
    R = z3.Function("raw", z3.IntSort(), z3.IntSort(), z3.RealSort())
    B0 = z3.Function("bias0", z3.IntSort(), z3.RealSort())
    T = z3.Function("thr", z3.IntSort(), z3.RealSort())
    n = int(K.raw_estimate.shape[1])
    defs = []
    for r in range(rows):
        defs.append(T(r) == z3.RealVal(repr(float(K.sub_algorithm_threshold[r]))))
        defs.append(B0(r) == z3.RealVal(repr(float(K.bias_data[r][0]))))
        for i in range(n):
            defs.append(R(r, i) == z3.RealVal(repr(float(K.raw_estimate[r][i]))))
    dom = [pI >= 0, pI < rows]
    qs = [("raw-estimate row not strictly increasing", dom + [iI >= 0, iI < n - 1, R(pI, iI + 1) <= R(pI, iI)]),
          ("table does not begin at the threshold", dom + [z3.Or(R(pI, 0) - B0(pI) - T(pI) > T(pI) / 100, T(pI) - (R(pI, 0) - B0(pI)) > T(pI) / 100)])]
    for name, q in qs:
        r, m = common.z3check(defs + q, timeout_ms, stats, label="shipped tables: " + name)
        if r == "unsat":
            continue
        if r != "sat":
            return {"status": "unknown", "stats": stats.as_dict(), "note": f"{r} on {name}"}
        row = m.eval(pI, model_completion=True).as_long()
        cex = {"kind": "hll-tables", "clause": name, "row": row, "p": row + 7, "index": m.eval(iI, model_completion=True).as_long()}
        return {"status": "cex", "stats": stats.as_dict(), "cex": cex, "replay": replay(cex), "finding_key": "hll-tables:" + name[:20]}
    return {"status": "proved", "stats": stats.as_dict(), "funcs": ["sketchnu.hll_constants (data)"]}


def replay_tables(cex):
    from sketchnu import hll_constants as K
    import numpy as np
    r = cex["row"]
    fails = []
    if not np.all(np.diff(K.raw_estimate[r]) > 0):
        i = int(np.nonzero(np.diff(K.raw_estimate[r]) <= 0)[0][0])
        fails.append(f"raw_estimate[p={r + 7}][{i}:{i + 2}] = {K.raw_estimate[r][i]}, {K.raw_estimate[r][i + 1]}: not strictly increasing (np.interp is undefined on such a table)")
    t = float(K.sub_algorithm_threshold[r])
    first = float(K.raw_estimate[r][0] - K.bias_data[r][0])
    if abs(first - t) > t / 100:
        fails.append(f"p={r + 7}: the table's first knot corrects to {first}, the linear-counting threshold is {t}")
    return {"reproduced": bool(fails), "how": "the arrays of the imported sketchnu.hll_constants module", "failed_clauses": fails}


def validate_translator(seed, n):
    """concrete differential: with all numerics concrete the interpreter cannot evaluate log/interp, so validation compares
    the BRANCH the interpreter takes (via the reference's decision terms on concrete registers) with the real result's leaf"""
    import numpy as np
    from sketchnu import hll_constants as K
    Hm = H()
    rnd = random.Random(seed + 3)
    bad = []
    for _ in range(n):
        p = 7
        m = 128
        arr = rnd.choice([[rnd.randrange(0, 3) for _ in range(m)], [rnd.randrange(1, 6) for _ in range(m)], [0] * m, [rnd.randrange(0, 60) for _ in range(m)]])
        sk = Hm.HyperLogLog(p)
        sk.registers[:] = np.array(arr, np.uint8)
        got = float(sk.query())
        want = py_reference(arr, p, K.sub_algorithm_threshold[0], 0.7213 / (1.0 + 1.079 / m), K.raw_estimate[0], K.bias_data[0])
        if not (got == want or abs(got - want) <= 1e-9 * max(1.0, abs(want))):
            bad.append({"registers": arr[:8], "real": got, "reference": want})
    return {"n": n, "n_mismatch": len(bad), "mismatches": bad[:3], "what": "real query() vs the independent numpy reference used by replays (the symbolic reference has the same tree)"}


def main():
    t0 = time.time()
    tier = common.get_tier()
    H()
    tmo = 300000 if tier == "quick" else 1200000
    ms = [16, 128] if tier == "quick" else [16, 128, 512]
    obs = []
    for m in ms:
        obs.append(common.Ob(f"_query == documented decision tree for all register arrays, m={m}", ob_structure, (m, tmo), hard_s=tmo / 1000 * 2 + 240, bounds={"m": m, "registers": "all values 0..64 per cell (symbolic)", "threshold, alpha": "symbolic"}))
        obs.append(common.Ob(f"empty sketch => exactly 0.0, m={m}", ob_empty, (m, tmo), hard_s=tmo / 1000 + 240, bounds={"m": m}))
    obs.append(common.Ob("witness: every leaf of the decision tree reachable", ob_witness, (16,), kind="witness", hard_s=600))
    obs.append(common.Ob("shipped tables: raw estimates strictly increasing, tables begin where the thresholds end", ob_tables, (tmo,), hard_s=tmo / 1000 * 2 + 60, bounds={"rows": "all shipped precisions", "knots": "all"}))
    from engine import wrun
    wobs, wmeta = wrun.obligations("c17", tier)
    obs += wobs
    results = common.run_obligations(obs, progress=os.environ.get("VERIF_VERBOSE") == "1")
    funcs = set()
    for r in results:
        funcs.update(r.get("funcs") or [])
    val = validate_translator(common.get_seed(), 20 if tier == "quick" else 100)
    rc_extra = 0
    if val["n_mismatch"]:
        print("reference validation failed:", val["mismatches"], file=sys.stderr)
        rc_extra = 2
    rc = common.finish(
        PID, tier, "model_checking", obs, results, t0=t0, funcs=funcs,
        bounds={"register_arrays": f"m in {ms} cells (the kernel takes m as a parameter; the class only uses m >= 128), every cell symbolic in 0..64", "threshold": "0..2^62", "alpha": "any positive real", "tables": f"symbolic (raw estimate, bias) tables of {NK} knots, raw estimates strictly increasing"},
        stubs=["np.interp -> uninterpreted function of (x, xp-table, fp-table) with its definition (clamped piecewise-linear) instantiated per application when congruence does not suffice", "np.log, float64 ** -> uninterpreted functions over the reals (floats idealised as reals: the sum's association order is immaterial); 2**x > 0; log(1) = 0 for the empty-sketch obligation"],
        assumptions=["Numba lowering preserves typed-IR semantics", "HyperLogLog.__init__ passes row p-7 of the shipped tables and alpha = 0.7213/(1+1.079/m), and query() evaluates the current registers at every call: CrossHair conditions of checks/w_c17.py",
                     "a structural counterexample is reported only after a register array reproducing a numeric disagreement with the independent reference is found on the real sketch"],
        outside=["accuracy of np.log / np.interp / 2.0**x", "register files larger than the listed m (the loops are uniform)", "float rounding (real-idealised); the replay compares numerically with tolerance 1e-9"],
        explanation="the estimator's branch structure and formulas decided for all register arrays against a reference tree under shared uninterpreted numerics",
        validation=val,
        technique="symbolic execution of Numba typed IR + z3 (real-idealised: LRA/NRA + uninterpreted log/pow/interp, math-mode integers): result term == reference decision tree")
    return rc or rc_extra


if __name__ == "__main__":
    sys.exit(main())
