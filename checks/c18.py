"""C18: counters saturate at their ceiling; they never wrap around.

Engine K.  Linear count-min and heavy hitters: exact bit-vector one-step obligations from arbitrary states (cells within
any distance of 2^32-1 included): no add or merge lowers any key's estimate, an estimate at the ceiling stays there, a
heavy-hitter cell whose key is re-added / merged with the same key only grows (to the cap).  Log sketches:
_log_counter is monotone, never passes uint_maxval and stays at it (IEEE mode); merged log counters are never below an
input and reach the ceiling from max_count on (real-idealised, shared with C09); (decoded ceiling - max_count)(b - 1) ==
_func(b) (real-idealised); _find_base hands the constructor's parameters unchanged to _func/_funcprime, raises ValueError on
every non-returning outcome, and its returning path carries the certificate |_func(returned base)| <= 1e-6 max_count (b-1):
every accepted configuration decodes its ceiling to max_count (this obligation found defect F4, DESIGN.md section 5)."""
import os
import sys
import time

sys.path.insert(0, os.path.dirname(os.path.dirname(os.path.abspath(__file__))))
import warnings

warnings.filterwarnings("ignore")
import z3
from engine import common, cmh, logh, logm, realmode, hhh
from engine.kit import KeyBook, cm_est, zx, ev, MAX32, select_col
from engine.nbsym import Executor, State, SBytes, Val, types, mk_int, zi_of, Unsupported
from checks import c05, c09

PID = "C18"


# ------------------------------------------------------------------------------------------- linear
def ob_linear_add(width, depth, timeout_ms):
    stats = common.Stats()
    h = c05.lin_harness(width, depth)
    sk, pre, post, colk, colo = h["sk"], h["pre"], h["post"], h["colk"], h["colo"]
    old_k, old_o = cm_est(pre, sk.cms, colk), cm_est(pre, sk.cms, colo)
    new_k, new_o = cm_est(post.heap, sk.cms, colk), cm_est(post.heap, sk.cms, colo)
    goals = [("no estimate is lowered by an add (added key and any other key)", z3.And(z3.UGE(new_k, old_k), z3.UGE(new_o, old_o))),
             ("an estimate at 2^32-1 stays at 2^32-1", z3.And(z3.Implies(old_k == MAX32, new_k == MAX32), z3.Implies(old_o == MAX32, new_o == MAX32))),
             ("the added key's estimate saturates: old + v >= 2^32-1 => new == 2^32-1", z3.Implies(z3.UGE(zx(old_k, 64) + zx(h["value"], 64), MAX32), new_k == MAX32)),
             ("no cell decreases", z3.And(*[z3.UGE(x, y) for x, y in zip(post.heap[sk.cms.sid], pre[sk.cms.sid])]))]
    assume = list(post.pc) + h["book"].range_constraints()
    funcs = sorted(h["ex"].funcs_encoded)
    r, info = cmh.first_failure(assume, goals, timeout_ms, stats, f"_add_linear saturation {depth}x{width}")
    if r is None:
        return {"status": "proved", "stats": stats.as_dict(), "funcs": funcs}
    if r == "unknown":
        return {"status": "unknown", "stats": stats.as_dict(), "funcs": funcs, "note": f"unknown on {info}"}
    name, m = info
    cex = c05.lin_cex(h, m, name)
    rp = replay(cex)
    return {"status": "cex", "stats": stats.as_dict(), "funcs": funcs, "cex": cex, "replay": rp, "finding_key": "linear-add-saturation"}


def replay_linear_sat(cex):
    """like C05's step replay but judging only C18's clauses"""
    import numpy as np
    w, d = cex["width"], cex["depth"]
    keys = cmh.realise_keys(w, d, [cex["col_key"], cex["col_other"]])
    if keys is None:
        return {"reproduced": False, "how": "no keys for the column pattern"}
    k, o = keys
    sk = cmh.cm().CountMinLinear(w, d)
    sk.cms[:] = np.array(cex["table"], dtype=np.uint32).reshape(d, w)
    before = sk.cms.copy()
    ok, oo = int(sk.query(k)), int(sk.query(o))
    sk.add(k, cex["value"])
    nk, no = int(sk.query(k)), int(sk.query(o))
    fails = []
    if nk < ok or no < oo:
        fails.append(f"an add lowered an estimate: key {ok}->{nk}, other {oo}->{no}")
    if (ok == MAX32 and nk != MAX32) or (oo == MAX32 and no != MAX32):
        fails.append("an estimate left the ceiling")
    if ok + min(cex["value"], MAX32) >= MAX32 and nk != MAX32:
        fails.append(f"old {ok} + v {cex['value']} reaches the ceiling but the estimate is {nk}")
    if (sk.cms < before).any():
        fails.append("a cell decreased")
    return {"reproduced": bool(fails), "how": "table installed through public cms[:]; CountMinLinear.add / query", "keys": [k.hex(), o.hex()], "failed_clauses": fails}


def ob_linear_merge(width, depth, timeout_ms):
    stats = common.Stats()
    book = KeyBook()
    ex = Executor(stubs={"fasthash64": book.stub()})
    st = State()
    a = cmh.SymCM(st, "a", 32, width, depth)
    b = cmh.SymCM(st, "b", 32, width, depth)
    key, kid = book.new_key("key")
    colk = cmh.keycols(book, kid, width, depth)
    pre = dict(st.heap)
    post = cmh.merge_linear(ex, st, a, b)
    ea, eb, er = cm_est(pre, a.cms, colk), cm_est(pre, b.cms, colk), cm_est(post.heap, a.cms, colk)
    goals = [("a merge never lowers an estimate (>= both operands')", z3.And(z3.UGE(er, ea), z3.UGE(er, eb))),
             ("an estimate at the ceiling in either operand stays at the ceiling", z3.Implies(z3.Or(ea == MAX32, eb == MAX32), er == MAX32)),
             ("no cell wraps: every cell == min(a+b, 2^32-1)", z3.And(*[r == c09.sat_add(x, y) for r, x, y in zip(post.heap[a.cms.sid], pre[a.cms.sid], pre[b.cms.sid])]))]
    assume = list(post.pc) + book.range_constraints()
    funcs = sorted(ex.funcs_encoded)
    deep = width * depth > 12
    if deep:
        goals = goals[2:]  # estimate-level clauses by decomposition (row lemma per row + depth-d glue lemma)
    r, info = cmh.first_failure(assume, goals, timeout_ms, stats, f"_merge_linear saturation {depth}x{width}")
    if r is None and deep:
        r, info = cmh.merge_estimate_goals_decomposed(assume, pre, post, a, b, colk, c09.sat_add, timeout_ms, stats, f"_merge_linear saturation {depth}x{width}")
    if r is None:
        return {"status": "proved", "stats": stats.as_dict(), "funcs": funcs}
    if r == "unknown":
        return {"status": "unknown", "stats": stats.as_dict(), "funcs": funcs, "note": f"unknown on {info}"}
    name, m = info
    cex = {"kind": "linear-merge", "width": width, "depth": depth, "clause": name, "a": [ev(m, x) for x in pre[a.cms.sid]], "b": [ev(m, x) for x in pre[b.cms.sid]],
           "nar_a": [0, 0], "nar_b": [0, 0], "col_key": [ev(m, c) for c in colk]}
    return {"status": "cex", "stats": stats.as_dict(), "funcs": funcs, "cex": cex, "replay": replay(cex), "finding_key": "linear-merge-saturation"}


# ------------------------------------------------------------------------------------------- heavy hitters
def ob_hh_add(mkl, Ly, timeout_ms):
    """cell stores the added key (or is empty): after add(key, v) the cell stores the key with min(count+v, 2^32-1)"""
    stats = common.Stats()
    book = KeyBook()
    ex = Executor(stubs={"fasthash64": book.stub()})
    st = State()
    sk = hhh.SymHH(st, "s", 1, 2, mkl)
    y = hhh.new_key("y", Ly)
    v = z3.BitVec("v", 32)
    ny, yb = hhh.ident(y.cells, Ly, mkl)
    pre = dict(st.heap)
    post = hhh.add(ex, st, sk, y, v)
    goals = []
    for r in range(2):
        b0, l0, c0 = sk.cell(pre, r, 0)
        b1, l1, c1 = sk.cell(post.heap, r, 0)
        mine = z3.Or(hhh.same_ident(l0, b0, ny, yb), c0 == 0)
        goals.append((f"row {r}: a cell holding the key (or empty) ends with min(count+v, 2^32-1) and never shrinks",
                      z3.Implies(mine, z3.And(c1 == c09.sat_add(z3.If(hhh.same_ident(l0, b0, ny, yb), c0, z3.BitVecVal(0, 32)), v), z3.UGE(c1, c0),
                                              z3.Implies(c1 != 0, hhh.same_ident(l1, b1, ny, yb))))))
    assume = list(post.pc) + [sk.rep_inv(pre)]
    funcs = sorted(ex.funcs_encoded)
    for name, g in goals:
        rr, m = common.z3check(assume + [z3.Not(g)], timeout_ms, stats, label=f"HH _add saturation mkl={mkl} len={Ly}: {name}")
        if rr == "unsat":
            continue
        if rr != "sat":
            return {"status": "unknown", "stats": stats.as_dict(), "funcs": funcs, "note": rr}
        b0, l0, c0 = sk.cell(pre, 0, 0)
        key = bytes(ev(m, x) for x in y.cells)
        cex = {"kind": "hh-saturation", "mkl": mkl, "key": key.hex(), "ops": [["add", ev(m, sk.cell(pre, 0, 0)[2])], ["add", ev(m, v)]], "clause": name}
        return {"status": "cex", "stats": stats.as_dict(), "funcs": funcs, "cex": cex, "replay": replay(cex), "finding_key": "hh-add-saturation"}
    return {"status": "proved", "stats": stats.as_dict(), "funcs": funcs}


def ob_hh_merge(mkl, timeout_ms):
    """two cells holding the same identity merge to min(a+b, 2^32-1); merging with an empty cell keeps the count"""
    stats = common.Stats()
    ex = Executor()
    st = State()
    a = hhh.SymHH(st, "a", 1, 1, mkl)
    b = hhh.SymHH(st, "b", 1, 1, mkl)
    pre = dict(st.heap)
    post = hhh.merge(ex, st, a, b)
    ba, la, ca = a.cell(pre, 0, 0)
    bb, lb, cb = b.cell(pre, 0, 0)
    b1, l1, c1 = a.cell(post.heap, 0, 0)
    same = hhh.same_ident(la, ba, lb, bb)
    goals = [("same key in both cells: count == min(a+b, 2^32-1), key kept", z3.Implies(same, z3.And(c1 == c09.sat_add(ca, cb), hhh.same_ident(l1, b1, la, ba)))),
             ("other cell empty: count and key unchanged", z3.Implies(cb == 0, z3.And(c1 == ca, z3.Implies(ca != 0, hhh.same_ident(l1, b1, la, ba))))),
             ("own cell empty: the other cell's key and count are taken over", z3.Implies(z3.And(ca == 0, cb != 0), z3.And(c1 == cb, hhh.same_ident(l1, b1, lb, bb))))]
    assume = list(post.pc) + [a.rep_inv(pre), b.rep_inv(pre)]
    funcs = sorted(ex.funcs_encoded)
    for name, g in goals:
        rr, m = common.z3check(assume + [z3.Not(g)], timeout_ms, stats, label=f"HH _merge saturation mkl={mkl}: {name}")
        if rr == "unsat":
            continue
        if rr != "sat":
            return {"status": "unknown", "stats": stats.as_dict(), "funcs": funcs, "note": rr}
        n = ev(m, la)
        key = bytes(ev(m, x) for x in ba)[:n]
        keyb = bytes(ev(m, x) for x in bb)[:ev(m, lb)]
        cex = {"kind": "hh-merge-saturation", "mkl": mkl, "key_a": key.hex(), "key_b": keyb.hex(), "count_a": ev(m, ca), "count_b": ev(m, cb), "clause": name}
        return {"status": "cex", "stats": stats.as_dict(), "funcs": funcs, "cex": cex, "replay": replay(cex), "finding_key": "hh-merge-saturation"}
    return {"status": "proved", "stats": stats.as_dict(), "funcs": funcs}


def replay_hh(cex):
    Hm = hhh.hh()
    mkl = cex["mkl"]
    fails = []
    if cex["kind"] == "hh-saturation":
        key = bytes.fromhex(cex["key"])
        sk = Hm.HeavyHitters(1, 2, mkl, phi=0.5)
        tot = 0
        prev = 0
        for op in cex["ops"]:
            if op[1] == 0:
                continue
            sk.add(key, op[1])
            tot += op[1]
            got = int(sk[key[:mkl]])
            if got != min(tot, MAX32):
                fails.append(f"key alone in its cells: after adds totalling {tot}, hh[key] = {got}, expected {min(tot, MAX32)}")
            if got < prev:
                fails.append(f"count shrank {prev} -> {got}")
            prev = got
        return {"reproduced": bool(fails), "how": "fresh HeavyHitters(1,2,mkl); the key added alone through the public API", "failed_clauses": fails}
    ka, kb = bytes.fromhex(cex["key_a"]), bytes.fromhex(cex["key_b"])
    A, B = Hm.HeavyHitters(1, 1, mkl, phi=0.5), Hm.HeavyHitters(1, 1, mkl, phi=0.5)
    if cex["count_a"]:
        A.add(ka, cex["count_a"])
    if cex["count_b"]:
        B.add(kb, cex["count_b"])
    A.merge(B)
    if ka == kb or not cex["count_b"] or not cex["count_a"]:
        k = ka if cex["count_a"] else kb
        want = min((cex["count_a"] if (ka == kb or cex["count_a"]) else 0) + (cex["count_b"] if (ka == kb or not cex["count_a"]) else 0), MAX32)
        got = int(A[k])
        if got != want:
            fails.append(f"merge of ({ka!r},{cex['count_a']}) with ({kb!r},{cex['count_b']}): hh[{k!r}] = {got}, expected {want}")
    return {"reproduced": bool(fails), "how": "two fresh width-1 sketches built by add(), merged through the public API", "failed_clauses": fails}


# ------------------------------------------------------------------------------------------- _func / _find_base
def ob_func_char(timeout_ms):
    """real-idealised: (value(uint_max) - max_count) * (b - 1) == _func(b, max_count, num_reserved, uint_max) for b > 1:
    the distance of the decoded ceiling from max_count is _func(b)/(b - 1); in particular _func(b) == 0 <=> they agree"""
    C = cmh.cm()
    stats = common.Stats()
    ex = Executor(fpmode="real")
    st = State()
    b = z3.Real("base")
    mI, nrI, uI = z3.Ints("max_count num_reserved uint_max")
    st.pc += [b > 1, nrI >= 0, nrI < uI, uI <= 65535, uI >= 1, mI > nrI, mI < (1 << 63)]
    outs = ex.call_dispatcher(C._func, st, [Val(types.float64, b), Val(types.uint64, z3.Int2BV(mI, 64)), Val(types.uint32, z3.Int2BV(nrI, 32)), Val(types.uint32, z3.Int2BV(uI, 32))])
    funcs = sorted(ex.funcs_encoded)
    if len(outs) != 1:
        return {"status": "unknown", "note": f"{len(outs)} outcomes", "funcs": funcs}
    s, rv = outs[0]
    val = realmode.value_ref(uI, nrI, b)
    goal = z3.And((val - z3.ToReal(mI)) * (b - 1) == rv.t, (rv.t == 0) == (val == z3.ToReal(mI)))
    ax, cnt = realmode.instantiate(list(s.pc) + [goal], b)
    wraps = [c for k, c in s.oblig]
    r, m = common.z3check_race(list(s.pc) + ax + [z3.Or(z3.Not(goal), *wraps)], timeout_ms, stats, label="(value(uint_max) - max_count)(b - 1) == _func(b) (real-idealised)")
    if r == "unsat":
        return {"status": "proved", "stats": stats.as_dict(), "funcs": funcs, "axiom_instances": cnt}
    if r != "sat":
        return {"status": "unknown", "stats": stats.as_dict(), "funcs": funcs, "note": r}
    cex = {"kind": "find-base", "max_count": m.eval(mI, model_completion=True).as_long(), "num_reserved": m.eval(nrI, model_completion=True).as_long(), "clause": "_func is not the characteristic equation of the ceiling"}
    return {"status": "cex", "stats": stats.as_dict(), "funcs": funcs, "cex": cex, "replay": replay(cex), "finding_key": "func-char"}


TOL = 1e-6     # "decodes to max_count": relative tolerance of the claim and of the replays


def ob_find_base_plumbing(timeout_ms):
    """_find_base with _func/_funcprime recorded (each call yields a fresh real; _func itself is decided by ob_func_char):
      (a) every call receives exactly the constructor's max_count / num_reserved / uint_max as mathematical integers (a
          narrowing cast shows here);
      (b) every outcome that does not return raises ValueError;
      (c) CERTIFICATE: on the returning path the returned base b satisfies b >= 1.000000001 and the code has evaluated
          _func at exactly b with |_func(b)| <= 1e-6 * max_count * (b - 1) in its path condition -- with ob_func_char
          (value(ceiling) - max_count == _func(b)/(b - 1)) this is "the ceiling decodes to max_count" for EVERY accepted
          configuration, whatever the 200 Newton steps did.  Without such a guard nothing in the code ties the returned
          iterate to the equation, and the replay looks for an accepted configuration whose ceiling is off."""
    C = cmh.cm()
    stats = common.Stats()
    calls = []
    mI, nrI, uI = z3.Ints("max_count num_reserved uint_max")

    def mk_stub(tag):
        def stub(ex, state, args, sig):
            base, mc, nr, um = args
            k = len(calls)
            out = z3.Real(f"{tag}{k}")
            calls.append((tag, base.t, zi_of(mc.t), zi_of(nr.t), zi_of(um.t), out))
            if tag == "fp":
                state.pc.append(out != 0)
            return [(state, Val(types.float64, out))]
        return stub
    ex = Executor(fpmode="real", stubs={"_func": mk_stub("f"), "_funcprime": mk_stub("fp")}, loop_bound=205)
    st = State()
    st.pc += [nrI >= 0, nrI < uI, uI <= 65535, uI >= 1, mI > nrI, mI < (1 << 64), mI >= 2]
    outs = ex.call_dispatcher(C._find_base, st, [Val(types.uint64, z3.Int2BV(mI, 64)), Val(types.uint32, z3.Int2BV(nrI, 32)), Val(types.uint32, z3.Int2BV(uI, 32))])
    funcs = sorted(ex.funcs_encoded)
    rets = [(s_, v) for s_, v in outs if not (isinstance(v, tuple) and v and v[0] == "raise")]
    raises = [(s_, v) for s_, v in outs if isinstance(v, tuple) and v and v[0] == "raise"]
    if len(rets) != 1 or not raises:
        return {"status": "unknown", "funcs": funcs, "note": f"{len(rets)} returning / {len(raises)} raising outcomes"}
    s_ok, rv = rets[0]
    nf = [c for c in calls if c[0] == "f"]
    import fractions
    thr = z3.RealVal(str(fractions.Fraction(1.000000001)))  # the float64 literal in the source, exactly
    tol = z3.RealVal(str(fractions.Fraction(TOL)))
    pc_ok = list(s_ok.pc)

    def fail(name, m):
        mc = m.eval(mI, model_completion=True).as_long() if m is not None else (1 << 32) - 1
        nr = m.eval(nrI, model_completion=True).as_long() if m is not None else 250
        cex = {"kind": "find-base", "max_count": mc, "num_reserved": nr, "clause": name}
        return {"status": "cex", "stats": stats.as_dict(), "funcs": funcs, "cex": cex, "replay": replay(cex), "finding_key": "find-base:" + name[:20]}
    goals = [("at least 200 Newton steps call _func and _funcprime", z3.BoolVal(len(nf) >= 200 and len([c for c in calls if c[0] == "fp"]) >= 200)),
             ("every call receives exactly the constructor's max_count, num_reserved and uint_max", z3.And(*[z3.And(c[2] == mI, c[3] == nrI, c[4] == uI) for c in calls]) if all(c[2] is not None and c[3] is not None and c[4] is not None for c in calls) else z3.BoolVal(False)),
             ("every non-returning outcome raises ValueError", z3.BoolVal(all(v[1] is ValueError for _s, v in raises))),
             ("the returned base is >= 1.000000001", rv.t >= thr)]
    for name, g in goals:
        r, m = common.z3check(pc_ok + [z3.Not(g)], timeout_ms, stats, label="_find_base: " + name)
        if r == "sat":
            return fail(name, m)
        if r != "unsat":
            return {"status": "unknown", "stats": stats.as_dict(), "funcs": funcs, "note": f"{r} on {name}"}
    # (c) the certificate: some recorded _func call was made AT the returned base and its result is bounded on the path
    name = "accepted => the code checked |_func(returned base)| <= 1e-6 * max_count * (base - 1) (the ceiling decodes to max_count)"
    model = None
    for c in reversed(nf[-3:]):
        cert = z3.And(c[1] == rv.t, z3.If(c[5] >= 0, c[5], -c[5]) <= tol * z3.ToReal(mI) * (rv.t - 1))
        r, m = common.z3check(pc_ok + [z3.Not(cert)], timeout_ms, stats, label="_find_base: certificate on the returning path")
        if r == "unsat":
            return {"status": "proved", "stats": stats.as_dict(), "funcs": funcs, "note": f"{len(nf)} _func calls, certificate found"}
        if r != "sat":
            return {"status": "unknown", "stats": stats.as_dict(), "funcs": funcs, "note": f"{r} on the certificate query"}
        model = model or m
    return fail(name, model)


def replay_find_base(cex):
    """construct real log sketches with the model's max_count (and nearby legal num_reserved): either the constructor
    raises ValueError or the ceiling counter decodes to max_count (relative 1e-6), as C18 states"""
    C = cmh.cm()
    fails = []
    tried = []
    for mc in [cex["max_count"], cex["max_count"] + 1000, cex["max_count"] | 123456]:
      if mc >= (1 << 64):
        continue
      for bits, cls, nrs in ((8, C.CountMinLog8, [cex["num_reserved"], 15, 0, 100, 200, 230, 240, 245, 250, 252, 253, 254]), (16, C.CountMinLog16, [cex["num_reserved"], 1023, 0, 30000, 57000, 60000, 62000, 64000, 65000, 65500, 65530, 65533, 65534])):
        umax = logh.UMAX[bits]
        for nr in nrs:
            if not (0 <= nr < umax) or nr >= mc or (bits, nr, mc) in tried:
                continue
            tried.append((bits, nr, mc))
            try:
                sk = cls(2, 1, mc, nr)
            except ValueError:
                continue
            except Exception as e:
                fails.append(f"CountMinLog{bits}(max_count={mc}, num_reserved={nr}) raised {type(e).__name__}: {e} (neither a sketch nor the documented ValueError)")
                continue
            top = float(C._counter2value(umax, nr, sk.base))
            if not (abs(top - mc) <= 2 * TOL * mc):
                fails.append(f"CountMinLog{bits}(max_count={mc}, num_reserved={nr}) accepted with base={float(sk.base)!r} but the ceiling counter decodes to {top}, not max_count")
    return {"reproduced": bool(fails), "how": "real constructors CountMinLog8/16(width=2, depth=1, max_count, num_reserved); ceiling decoded with _counter2value(uint_maxval)", "tried": tried, "failed_clauses": fails[:4]}


def replay(cex):
    k = cex.get("kind")
    if k == "w":
        from engine import wrun
        return wrun.replay_generic(cex)
    if k == "linear-step":
        return replay_linear_sat(cex)
    if k == "linear-merge":
        return c09.replay_linear_merge(cex)
    if k in ("hh-saturation", "hh-merge-saturation"):
        return replay_hh(cex)
    if k == "find-base":
        return replay_find_base(cex)
    if k == "log-counter":
        return logh.replay_log_counter(cex)
    if k == "log-merge":
        return logm.replay(cex)
    return {"reproduced": False, "how": "unknown kind"}


def main():
    t0 = time.time()
    tier = common.get_tier()
    cmh.cm()
    hhh.hh()
    tmo = 300000 if tier == "quick" else 1200000
    shapes = [(1, 1), (2, 2), (3, 2)] if tier == "quick" else [(w, d) for w in (1, 2, 3, 4) for d in (1, 2, 3)] + [(2, 8)]
    obs = []
    for (w, d) in shapes:
        obs.append(common.Ob(f"linear add never lowers / saturates, {d}x{w}", ob_linear_add, (w, d, tmo), hard_s=tmo / 1000 * 4 + 120, bounds={"width": w, "depth": d}))
        obs.append(common.Ob(f"linear merge never lowers / saturates, {d}x{w}", ob_linear_merge, (w, d, tmo), hard_s=tmo / 1000 * 3 + 120, bounds={"width": w, "depth": d}))
    mkls = [1, 2] if tier == "quick" else [1, 2, 3, 4]
    for mkl in mkls:
        for Ly in range(0, mkl + 2):
            obs.append(common.Ob(f"heavy hitters: re-adding the stored key saturates, mkl={mkl} len={Ly}", ob_hh_add, (mkl, Ly, tmo), hard_s=tmo / 1000 * 2 + 120, bounds={"max_key_len": mkl, "key_len": Ly}))
        obs.append(common.Ob(f"heavy hitters: merging equal keys saturates, mkl={mkl}", ob_hh_merge, (mkl, tmo), hard_s=tmo / 1000 * 3 + 120, bounds={"max_key_len": mkl}))
    for umax in (255, 65535):
        obs.append(common.Ob(f"_log_counter: monotone, never beyond {umax}, stays at the ceiling (loop body, symbolic counter/num_reserved/base)", logh.ob_log_counter_lemma, (umax, 1, tmo), hard_s=tmo / 1000 * 10 + 120, bounds={"uint_maxval": umax}))
    for bits in (8, 16):
        for grp in ("never below either input", "max_count => ceiling"):
            obs.append(common.Ob(f"log{bits} merge (real-idealised): {grp}", realmode.ob_merge_ideal, (bits, tmo, grp), hard_s=tmo / 1000 * 3 + 120, bounds={"bits": bits}))
    obs.append(common.Ob("_func(b) == (decoded ceiling - max_count) * (b - 1) (real-idealised)", ob_func_char, (tmo,), hard_s=tmo / 1000 + 120, bounds={"uint_max": "1..65535 symbolic", "max_count": "< 2^63 symbolic"}))
    obs.append(common.Ob("_find_base: parameters handed on unchanged, ValueError otherwise, certificate |_func(base)| <= 1e-6 max_count (base-1) on the returning path", ob_find_base_plumbing, (tmo,), hard_s=tmo / 1000 * 6 + 300, bounds={"max_count": "all uint64", "loop": "200 iterations unrolled"}))
    from engine import wrun
    wobs, wmeta = wrun.obligations("c18", tier)
    obs += wobs
    obs.append(common.Ob("witness: a linear estimate reaches the ceiling from below in the add harness", c05.ob_linear_witness, (2, 2, "ceiling"), kind="witness", hard_s=300))
    results = common.run_obligations(obs, progress=os.environ.get("VERIF_VERBOSE") == "1")
    funcs = set()
    for r in results:
        funcs.update(r.get("funcs") or [])
    return common.finish(
        PID, tier, "model_checking", obs, results, t0=t0, funcs=funcs,
        bounds={"linear_shapes(width,depth)": shapes, "heavy_hitter_max_key_len": mkls, "log": "symbolic counter / num_reserved / base; _find_base loop fully unrolled (200)"},
        stubs=["fasthash64 -> uninterpreted columns", "_rand -> arbitrary draw", "pow/log uninterpreted (IEEE mode) or with algebraic laws (real-idealised)", "_func/_funcprime recorded when checking _find_base's plumbing"],
        assumptions=["Numba lowering preserves typed-IR semantics", "the add()/update(dict) wrappers of CountMinLinear and HeavyHitters cap multiplicities at 2^32-1 before the (uint32) kernel argument: CrossHair conditions of w_c12 attached"],
        outside=["which configurations the constructor refuses (only that accepted ones decode their ceiling to max_count, relative 1e-6, idealised over the reals)",
                 "float rounding in the log counters"],
        explanation="saturating behaviour of every counter update decided on the real kernels from arbitrary states; _find_base decided through a certificate on its returning path plus the lemma (decoded ceiling - max_count)(b - 1) == _func(b)",
        technique="symbolic execution of Numba typed IR + z3 (QF_BV; QF_FPBV with uninterpreted pow; NRA real-idealised with math-mode integers)")


if __name__ == "__main__":
    sys.exit(main())
