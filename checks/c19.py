"""C19: engine W (CrossHair) over checks/w_c08.py -- parallel_add glue under a synchronous, scripted 'spawn' context."""
import os
import sys

sys.path.insert(0, os.path.dirname(os.path.dirname(os.path.abspath(__file__))))
from engine import wcheck, wrun

PID = "C19"


def replay(cex):
    return wrun.replay_generic(cex)


if __name__ == "__main__":
    sys.exit(wcheck.run(
        PID, "c19",
        bounds={'items': 2, 'n_workers': '1..2 (raising callback), 1..3 (dead worker)', 'failure flags': 'symbolic per item: none / before adding / after adding', 'exit code': 'symbolic, non-zero'},
        explanation='real _worker/parallel_add under the synchronous context: items whose callback raises (before or after touching the sketches, symbolic per item) are skipped without losing the others and count 0 records; a worker with a non-zero exit code (symbolic -15..255) makes parallel_add raise instead of returning',
        encoded=["helpers._fill_queue", "helpers._worker", "helpers._merge_worker", "helpers.parallel_merging", "helpers.parallel_add", "helpers.attach_shared_memory"]))
