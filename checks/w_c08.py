"""Engine-W harness for C08 (parallel_add == sequential result for every schedule) and C19 (failing callback / dead
worker).  Glue only: the REAL helpers._fill_queue, _worker, _merge_worker, parallel_merging and parallel_add run under
CrossHair with multiprocessing replaced by a synchronous 'spawn' context that (a) pickles Process arguments, as the
spawn start method does, (b) delivers queue item j to worker assign[j] for a SYMBOLIC assignment, one poison pill per
worker afterwards, (c) gives a worker that is told to die a non-zero exit code.  Sketch kernels are recorders: an add is
attributed to the shared block it writes, a merge to its (destination, source) blocks."""
from typing import List
from checks.wcommon import *  # noqa

W_STUBS = ["multiprocessing.get_context('spawn') -> synchronous context: Process.start() pickles its arguments and runs the target; Queue delivers exactly once, item j to worker assign[j] (symbolic), then one pill per worker",
           "SharedMemory -> recording stand-in shared by name; kernels (_add*, _merge*) are recorders keyed by the block they touch; logging queue is a list"]
W_ASSUMPTIONS = ["mp.Queue delivers every item exactly once (its contract)", "merge kernels implement a commutative, associative combination (C01/C02/C03/C04/C09): then 'every worker's block merged exactly once into the returned sketch' gives the sequential result"]
W_OUTSIDE = ["OS scheduling beyond the two modelled timing parameters (delay before a worker's exit status is observable; the work queue's capacity with a filler blocked in put()), real process spawn, shared-memory coherence between processes, signals / OOM kills"]

if MODE == "shim":
    from engine.shim import shims as _sh
    SEEDS = []     # seed argument of every HyperLogLog _add call
    ADDS = []      # (store id of the first array argument, key)
    MERGES = []    # (dst store id, src store id)

    def _first_store(args):
        for a in args:
            if hasattr(a, "data") and hasattr(a, "shape"):
                return id(a.data)
        return None

    def _add_rec(*args):
        key = [a for a in args if isinstance(a, (bytes, bytearray))]
        ADDS.append((_first_store(args), key[0] if key else None))
        SEEDS.append(args[1] if len(args) == 5 else None)   # hyperloglog._add(registers, seed, p, m, key)
        return 0

    def _merge_rec(*args):
        arrs = [a for a in args if hasattr(a, "data") and hasattr(a, "shape")]
        # count-min: (cms, other_cms, nar, other_nar); hll: (registers, other); heavy hitters: (lhh, cnt, kl, nar, other_lhh, ...)
        src = arrs[4] if len(arrs) == 8 else arrs[1]
        MERGES.append((id(arrs[0].data), id(src.data)))
        # the merge kernels sum the bookkeeping counters (decided by C09/C03): model exactly that part
        nars = [a for a in args if hasattr(a, "shape") and tuple(a.shape) == (2,) and a.dtype.__name__ == "uint64"]
        if len(nars) == 2:
            nars[0][0] = nars[0][0] + nars[1][0]
            nars[0][1] = nars[0][1] + nars[1][1]
        return None
    for n in ("_add_linear", "_add_log16", "_add_log8"):
        kernel_impl(CM, n, _add_rec, record=False)
    for n in ("_merge_linear", "_merge_log16", "_merge_log8"):
        kernel_impl(CM, n, _merge_rec, record=False)
    kernel_impl(HH, "_add", _add_rec, record=False)
    kernel_impl(HH, "_merge", _merge_rec, record=False)
    kernel_impl(HLL, "_add", _add_rec, record=False)
    kernel_impl(HLL, "_merge", _merge_rec, record=False)

    class WorkerKilled(BaseException):
        pass

HLL_SEED = 5 + 2 ** 40 + 2 ** 63    # a seed that does not survive a 32-bit or float round trip
CALLBACK_LOG = []
RET = [1, 1, 1, 1, 1, 1]
RAISE = [0, 0, 0, 0, 0, 0]     # 0: fine, 1: raises before touching the sketches, 2: raises after updating them
KILL_ON = [-1]


def callback(item, *sketches, **kwargs):
    """the user callback: adds one key per sketch, returns RET[item]; may raise (C19) or die (C19)"""
    CALLBACK_LOG.append(item)
    if MODE == "shim" and KILL_ON[0] == item:
        raise WorkerKilled()
    if RAISE[item] == 1:
        raise ValueError("boom before")
    if RAISE[item] == 3:
        return RET[item]       # a record that contains no key: counted, nothing added
    for s in sketches:
        s.add(b"k%d" % item)
    if RAISE[item] == 2:
        raise KeyError()
    return RET[item]


def _scheduler(proc):
    name = getattr(proc.target, "__name__", "")
    if name == "_log_worker":
        return
    if name == "_worker":
        vis = _sh.MP.get("visible")
        if vis is not None and proc.args[0] < len(vis):
            proc.visible_at = vis[proc.args[0]]
    if name == "_worker" and _sh.MP.get("die") is not None and proc.args[0] == _sh.MP["die"]:
        proc.exitcode = _sh.MP.get("die_code", 1)
        return
    proc.run_now()


def _reset(assign, die=None, die_code=1, visible=None):
    del CALLBACK_LOG[:]
    del ADDS[:]
    del SEEDS[:]
    del MERGES[:]
    del SHM_EVENTS[:]
    _sh.MP.update({"assign": assign, "scheduler": _scheduler, "die": die, "die_code": die_code, "events": [], "procs": [], "current": None, "clock": 0, "visible": visible})
    KILL_ON[0] = -1


def _owner_of():
    """map store id -> index of the shared block (creation order of blocks per sketch kind is worker order)"""
    return None


# ---------------------------------------------------------------------------------------------------- C08
def check_fill_queue(n_items: int, n_workers: int) -> bool:
    """
    pre: 0 <= n_items <= 5 and 1 <= n_workers <= 9
    post: _ == True
    """
    items = [10 + i for i in range(5)][:n_items]
    q, lq = _sh.FakeQueue(), _sh.FakeQueue()
    if n_items == 0:
        # documented inputs are non-empty; the empty list is reported separately (see DESIGN.md)
        return True
    HELPERS._fill_queue(q, items, n_workers, lq)
    return q.items == items + [None] * n_workers


def _run_parallel(n_items, n_workers, assign, use_cms, use_hh, use_hll):
    items = list(range(n_items))
    kw = {}
    if use_cms:
        kw["cms_args"] = {"cms_type": "linear", "width": 4, "depth": 2}
    if use_hh:
        kw["hh_args"] = {"width": 2, "depth": 1, "max_key_len": 3}
    if use_hll:
        kw["hll_args"] = {"p": 7, "seed": HLL_SEED}
    return HELPERS.parallel_add(items, callback, n_workers=n_workers, **kw)


def _check_result(res, n_items, n_workers, assign, kinds, processed):
    """every processed item added exactly once per sketch kind to the block of the worker it was assigned to; every
    worker's block of every kind merged into the returned sketch exactly once; n_records = sum of returns"""
    res = res if isinstance(res, tuple) else (res,)
    ok = len(res) == len(kinds)
    # replay the recorded merges: which blocks ended up in which block
    sets = {}
    for m in MERGES:
        dst, src = m[0], m[1]
        sets.setdefault(dst, [dst])
        sets.setdefault(src, [src])
        sets[dst] = sets[dst] + sets[src]
    for ki, kind in enumerate(kinds):
        final = res[ki]
        tbl = {"cms": "cms", "hh": "lhh", "hll": "registers"}[kind]
        fin_store = id(getattr(final, tbl).data)
        got = sets.get(fin_store, [fin_store])
        ok = ok and len(got) == len(set(got)) and len(got) == n_workers
        adds_k = [st for (st, key) in ADDS if st in got]
        ok = ok and len(adds_k) == len(processed)
        if kind != "hll":
            ok = ok and ival(final.n_records()) == sum(RET[j] for j in processed if RAISE[j] == 0)
        else:
            # workers hash with the seed the caller asked for, and the returned sketch carries it
            ok = ok and all(sd is None or sd == HLL_SEED for sd in SEEDS) and final.seed == HLL_SEED
    return ok


def _pa_cms(n_workers, a0, a1, a2, r0, r1, r2):
    assign = [a0, a1, a2]
    RET[0], RET[1], RET[2] = r0, r1, r2
    RAISE[0] = RAISE[1] = RAISE[2] = 0
    _reset(assign)
    res = _run_parallel(3, n_workers, assign, True, False, False)
    return sorted(CALLBACK_LOG) == [0, 1, 2] and _check_result(res, 3, n_workers, assign, ["cms"], [0, 1, 2])


def check_parallel_add_cms_w1(r0: int, r1: int, r2: int) -> bool:
    """
    pre: 0 <= r0 <= 10**6 and 0 <= r1 <= 10**6 and 0 <= r2 <= 10**6
    post: _ == True
    timeout: 600
    """
    return _pa_cms(1, 0, 0, 0, r0, r1, r2)


def check_parallel_add_cms_w2(a0: int, a1: int, a2: int, r0: int, r1: int, r2: int) -> bool:
    """
    pre: 0 <= a0 < 2 and 0 <= a1 < 2 and 0 <= a2 < 2 and 0 <= r0 <= 10**6 and 0 <= r1 <= 10**6 and 0 <= r2 <= 10**6
    post: _ == True
    timeout: 600
    """
    return _pa_cms(2, a0, a1, a2, r0, r1, r2)


def check_parallel_add_cms_w3(a0: int, a1: int, a2: int, r0: int, r1: int, r2: int) -> bool:
    """
    pre: 0 <= a0 < 3 and 0 <= a1 < 3 and 0 <= a2 < 3 and 0 <= r0 <= 10**6 and 0 <= r1 <= 10**6 and 0 <= r2 <= 10**6
    post: _ == True
    timeout: 600
    """
    return _pa_cms(3, a0, a1, a2, r0, r1, r2)


def check_parallel_add_cms_w4(a0: int, a1: int, a2: int, r0: int) -> bool:
    """
    pre: 0 <= a0 < 4 and 0 <= a1 < 4 and 0 <= a2 < 4 and 0 <= r0 <= 10**6
    post: _ == True
    timeout: 600
    tier: thorough
    """
    return _pa_cms(4, a0, a1, a2, r0, 2, 3)


def check_parallel_add_all(n_workers: int, a0: int, a1: int) -> bool:
    """
    pre: 1 <= n_workers <= 3 and 0 <= a0 < n_workers and 0 <= a1 < n_workers
    post: _ == True
    timeout: 600
    """
    return _pa_all(n_workers, a0, a1)


def check_parallel_add_all_w45(n_workers: int, a0: int, a1: int) -> bool:
    """
    pre: 4 <= n_workers <= 5 and 0 <= a0 < n_workers and 0 <= a1 < n_workers
    post: _ == True
    timeout: 600
    tier: thorough
    """
    return _pa_all(n_workers, a0, a1)


def _pa_all(n_workers, a0, a1):
    for n in range(1, 6):
        if n_workers == n:
            n_workers = n
    assign = [a0, a1]
    RET[0], RET[1] = 3, 4
    RAISE[0] = RAISE[1] = 0
    _reset(assign)
    res = _run_parallel(2, n_workers, assign, True, True, True)
    return sorted(CALLBACK_LOG) == [0, 1] and isinstance(res, tuple) and len(res) == 3 and _check_result(res, 2, n_workers, assign, ["cms", "hh", "hll"], [0, 1]) \
        and type(res[0]).__name__ == "CountMinLinear" and type(res[1]).__name__ == "HeavyHitters" and type(res[2]).__name__ == "HyperLogLog"


def check_parallel_records_only(n_workers: int, a0: int, a1: int, r1: int) -> bool:
    """
    pre: 1 <= n_workers <= 3 and 0 <= a0 < n_workers and 0 <= a1 < n_workers and 0 <= r1 <= 10**6
    post: _ == True
    timeout: 600
    """
    for n in range(1, 4):
        if n_workers == n:
            n_workers = n
    assign = [a0, a1]
    RET[0], RET[1] = 2, r1
    RAISE[0], RAISE[1] = 0, 3      # item 1 is a record without keys
    _reset(assign)
    res = _run_parallel(2, n_workers, assign, True, True, False)
    ok = sorted(CALLBACK_LOG) == [0, 1] and isinstance(res, tuple) and len(res) == 2
    RAISE[1] = 0
    return ok and all(ival(sk.n_records()) == 2 + r1 for sk in res)


def check_parallel_merging(n: int) -> bool:
    """
    pre: 1 <= n <= 9
    post: _ == True
    """
    for k in range(1, 10):
        if n == k:
            _reset(None)
            arr = [HLL.HyperLogLog(7, 1, True) for _ in range(k)]
            stores = [id(s.registers.data) for s in arr]
            first = arr[0]
            out = HELPERS.parallel_merging(list(arr), _sh.FakeQueue())
            sets = {}
            for m in MERGES:
                dst, src = m[0], m[1]
                sets.setdefault(dst, [dst])
                sets.setdefault(src, [src])
                sets[dst] = sets[dst] + sets[src]
            got = sets.get(stores[0], [stores[0]])
            return out is first and sorted(got) == sorted(stores) and len(MERGES) == k - 1
    return True


def check_items_generator(n_workers: int) -> bool:
    """
    pre: 1 <= n_workers <= 2
    post: _ == True
    """
    for n in (1, 2):
        if n_workers == n:
            RET[0], RET[1] = 1, 1
            RAISE[0] = RAISE[1] = 0
            _reset([0, 0])
            gen = (i for i in range(2))
            res = HELPERS.parallel_add(gen, callback, n_workers=n, hll_args={"p": 7, "seed": 5})
            return sorted(CALLBACK_LOG) == [0, 1]
    return True


# ---------------------------------------------------------------------------------------------------- C19
def _c19_raises(n_workers, a0, a1, f0, f1, r0, r1):
    fs = []
    for f in (f0, f1):
        for v in (0, 1, 2):
            if f == v:
                fs.append(v)
    assign = [a0, a1]
    RET[0], RET[1] = r0, r1
    RAISE[0], RAISE[1] = fs
    _reset(assign)
    res = _run_parallel(2, n_workers, assign, True, False, False)
    # terminates, every item offered to the callback once, items that did not raise before adding are in the result,
    # n_records counts only successful items
    contributing = [j for j in range(2) if RAISE[j] != 1]
    # the log worker must survive every record the run produced (ERROR records exist only when a callback raised): a dead
    # log process stops draining the log pipe and every process that still logs blocks in put() -- parallel_add hangs
    log_ok = all(p._exitcode == 0 for p in _sh.MP["procs"] if getattr(p.target, "__name__", "") == "_log_worker")
    return sorted(CALLBACK_LOG) == [0, 1] and _check_result(res, 2, n_workers, assign, ["cms"], contributing) and log_ok


def check_c19_callback_raises_w1(f0: int, f1: int, r0: int, r1: int) -> bool:
    """
    pre: 0 <= f0 <= 2 and 0 <= f1 <= 2 and 0 <= r0 <= 10**6 and 0 <= r1 <= 10**6
    post: _ == True
    timeout: 600
    """
    return _c19_raises(1, 0, 0, f0, f1, r0, r1)


def check_c19_callback_raises_w2(a0: int, a1: int, f0: int, f1: int, r0: int, r1: int) -> bool:
    """
    pre: 0 <= a0 < 2 and 0 <= a1 < 2 and 0 <= f0 <= 2 and 0 <= f1 <= 2 and 0 <= r0 <= 10**6 and 0 <= r1 <= 10**6
    post: _ == True
    timeout: 600
    """
    return _c19_raises(2, a0, a1, f0, f1, r0, r1)


def check_c19_dead_worker(n_workers: int, dead: int, code: int) -> bool:
    """
    pre: 1 <= n_workers <= 3 and 0 <= dead < n_workers and -15 <= code <= 255 and code != 0
    post: _ == True
    timeout: 600
    """
    for n in range(1, 4):
        if n_workers == n:
            n_workers = n
    RET[0], RET[1] = 1, 1
    RAISE[0] = RAISE[1] = 0
    _reset([0, n_workers - 1], die=dead, die_code=code)
    try:
        _run_parallel(2, n_workers, [0, n_workers - 1], True, False, False)
    except _sh.ShimHang:
        return False
    except Exception:
        return True
    return False


def check_c19_dead_worker_late(n_workers: int, dead: int, code: int, v0: int, v1: int, v2: int) -> bool:
    """
    pre: 2 <= n_workers <= 3 and 0 <= dead < n_workers and -15 <= code <= 255 and code != 0 and 0 <= v0 <= 2 and 0 <= v1 <= 2 and 0 <= v2 <= 2
    post: _ == True
    timeout: 600
    """
    # the exit status of worker i becomes observable only at the parent's v_i-th poll (any interleaving of "the worker
    # that dies is still running when the others have already finished"): still an exception, never a normal return
    for n in range(2, 4):
        if n_workers == n:
            n_workers = n
    vis = []
    for v in (v0, v1, v2):
        for c in range(3):
            if v == c:
                vis.append(c)
    RET[0], RET[1] = 1, 1
    RAISE[0] = RAISE[1] = 0
    _reset([0, n_workers - 1], die=dead, die_code=code, visible=vis)
    try:
        _run_parallel(2, n_workers, [0, n_workers - 1], True, False, False)
    except _sh.ShimHang:
        return False
    except Exception:
        return True
    return False


def check_c19_dead_worker_backlog(n_items: int, n_workers: int, code: int) -> bool:
    """
    pre: 1 <= n_items <= 6 and 1 <= n_workers <= 2 and -15 <= code <= 255 and code != 0
    post: _ == True
    timeout: 600
    """
    # worker 0 dies at once while the filler still has more entries to put than the queue (3 * n_workers) can hold:
    # parallel_add must still end with an exception, not wait for the filler forever
    for n in range(1, 7):
        if n_items == n:
            n_items = n
    for n in range(1, 3):
        if n_workers == n:
            n_workers = n
    for j in range(6):
        RET[j], RAISE[j] = 1, 0
    assign = [j % n_workers for j in range(n_items)]
    _reset(assign, die=0, die_code=code)
    try:
        _run_parallel(n_items, n_workers, assign, True, False, False)
    except _sh.ShimHang:
        return False
    except Exception:
        return True
    return False


def check_twin_records_counted(r0: int, r1: int, r2: int) -> bool:
    """
    pre: 0 <= r0 <= 10**6 and 0 <= r1 <= 10**6 and 0 <= r2 <= 10**6
    post: _ == True
    """
    RET[0], RET[1], RET[2] = r0, r1, r2
    RAISE[0] = RAISE[1] = RAISE[2] = 0
    _reset([0, 0, 0])
    res = _run_parallel(3, 1, [0, 0, 0], True, False, False)
    return ival(res.n_records()) == 0      # false claim: must be refuted

# ---------------------------------------------------------------------------------------------- real-library replays
def real_fill_queue(n_items, n_workers):
    return True, "decided under the shim only (needs an inspectable queue)"


def _real_parallel(n_items, n_workers, rets, fails, kinds, items=None):
    """real spawned run; judged against exact expectations"""
    import tempfile
    import os as _os
    import json as _json
    for j in range(len(rets)):
        RET[j] = rets[j]
    for j in range(len(fails)):
        RAISE[j] = fails[j]
    kw = {}
    if "cms" in kinds:
        kw["cms_args"] = {"cms_type": "linear", "width": 64, "depth": 2}
    if "hh" in kinds:
        kw["hh_args"] = {"width": 16, "depth": 2, "max_key_len": 3}
    if "hll" in kinds:
        kw["hll_args"] = {"p": 7, "seed": HLL_SEED}
    items = list(range(n_items)) if items is None else items
    try:
        res = HELPERS.parallel_add(items, real_callback, n_workers=n_workers, rets=list(RET), fails=list(RAISE), **kw)
    except Exception as e:
        return False, f"parallel_add raised {type(e).__name__}: {str(e)[:120]} instead of returning the sketches (callback failures per item: {list(fails)[:n_items]})"
    res = res if isinstance(res, tuple) else (res,)
    msgs = []
    contributing = [j for j in range(n_items) if fails[j] != 1]
    for sk, kind in zip(res, kinds):
        for j in range(n_items):
            key = b"k%d" % j
            if kind == "cms":
                got = int(sk.query(key))
                if got != (1 if j in contributing else 0):
                    msgs.append(f"count-min estimate of item {j}'s key is {got}")
            elif kind == "hh":
                got = int(sk[key])
                if j in contributing and got > 1:
                    msgs.append(f"heavy hitters over-count item {j}")
        if kind in ("cms", "hh"):
            want = sum(rets[j] for j in range(n_items) if fails[j] == 0)
            if int(sk.n_records()) != want:
                msgs.append(f"{kind}: n_records()={int(sk.n_records())}, expected {want}")
            if int(sk.n_added()) != len(contributing):
                msgs.append(f"{kind}: n_added()={int(sk.n_added())}, expected {len(contributing)}")
        if kind == "hll":
            ref = HLL.HyperLogLog(7, HLL_SEED)
            for j in contributing:
                ref.add(b"k%d" % j)
            if not (np.array(ref.registers) == np.array(sk.registers)).all():
                msgs.append("HyperLogLog registers differ from the sequential sketch")
    return (not msgs), "; ".join(msgs) or "parallel result equals the sequential expectation"


def real_callback(item, *sketches, rets=None, fails=None):
    import time as _t
    if fails[item] == 1:
        raise ValueError("boom before")
    if fails[item] == 3:
        _t.sleep(2.5)          # keep this worker busy so that the other items go to other workers
        return rets[item]
    if fails[item] == 4:
        _t.sleep(2.5)
        for s in sketches:
            s.add(b"k%d" % item)
        return rets[item]
    for s in sketches:
        s.add(b"k%d" % item)
    if fails[item] == 2:
        raise KeyError()
    return rets[item]


def real_parallel_add_cms_w1(r0, r1, r2): return _real_parallel(3, 1, [r0, r1, r2], [0, 0, 0], ["cms"])
def real_parallel_add_cms_w2(a0, a1, a2, r0, r1, r2): return _real_parallel(3, 2, [r0, r1, r2], [0, 0, 0], ["cms"])
def real_parallel_add_cms_w3(a0, a1, a2, r0, r1, r2): return _real_parallel(3, 3, [r0, r1, r2], [0, 0, 0], ["cms"])
def real_parallel_add_cms_w4(a0, a1, a2, r0): return _real_parallel(3, 4, [r0, 2, 3], [0, 0, 0], ["cms"])


def real_parallel_add_all_w45(n_workers, a0, a1):
    return _real_parallel(2, n_workers, [3, 4], [0, 0], ["cms", "hh", "hll"])


def real_parallel_add_all(n_workers, a0, a1):
    return _real_parallel(2, n_workers, [3, 4], [0, 0], ["cms", "hh", "hll"])


def real_parallel_records_only(n_workers, a0, a1, r1):
    """real spawned run with three workers and three slow items (one per worker): one item has keys, two are records
    without keys.  Whatever the OS assignment, both key-less workers end up on the argument side of some merge."""
    rets, fails = [2, max(r1, 1), 3], [4, 3, 3]
    for j in range(3):
        RET[j], RAISE[j] = rets[j], fails[j]
    last = (True, "")
    for attempt in range(2):
        try:
            res = HELPERS.parallel_add([0, 1, 2], real_callback, n_workers=3, cms_args={"cms_type": "linear", "width": 64, "depth": 2},
                                       hh_args={"width": 16, "depth": 2, "max_key_len": 3}, rets=list(rets), fails=list(fails))
        except Exception as e:
            return False, f"parallel_add raised {type(e).__name__}: {e}"
        want = sum(rets)
        got = [int(s.n_records()) for s in res]
        last = (all(g == want for g in got), f"attempt {attempt}: n_records() of (count-min, heavy hitters) = {got}, sum of the callback's returns = {want}")
        if not last[0]:
            return last
    return last


def real_parallel_merging(n):
    return _real_parallel(max(n, 2), n, [1] * 9, [0] * 9, ["hll"])


def real_items_generator(n_workers):
    try:
        res = HELPERS.parallel_add((i for i in range(2)), real_callback, n_workers=n_workers, hll_args={"p": 7, "seed": 5}, rets=[1, 1], fails=[0, 0])
    except TypeError as e:
        return False, f"parallel_add(generator, ...) raised TypeError: {e} although the documentation says items may be a list or a generator", "items-generator-not-picklable"
    return True, "generator accepted"


def bulky_callback(item, *sketches):
    """items are (index, blob): every log record that mentions an item is several hundred kB long"""
    i = item[0]
    if i == 0:
        raise ValueError("boom")
    for s in sketches:
        s.add(b"k%d" % i)
    return 1


def _real_bulky():
    """a failing callback followed by far more log text than a pipe buffer holds: parallel_add must still terminate"""
    def run():
        items = [(i, "x" * 400000) for i in range(12)]
        try:
            res = HELPERS.parallel_add(items, bulky_callback, n_workers=1, cms_args={"cms_type": "linear", "width": 64, "depth": 2})
        except Exception as e:
            return ("raised", type(e).__name__)
        return ("returned", int(res.n_added()), int(res.n_records()))
    st, out = _guarded(run, 150)
    if st == "hang":
        return False, "parallel_add HANGS: one worker, 12 items whose repr is 400 kB each, the callback raises on the first: no return within 150 s (the log process is gone and nobody drains the log pipe)"
    if out[0] == "returned" and out[1] == 11 and out[2] == 11:
        return True, "bulky items: terminated with the 11 successful items"
    return False, f"bulky items: {out}"


def _real_c19(n_items, n_workers, rets, fails):
    ok, detail = _real_parallel(n_items, n_workers, rets, fails, ["cms"])
    if ok and any(fails[:n_items]):
        ok2, d2 = _real_bulky()
        return ok2, detail + "; " + d2
    return ok, detail


def real_c19_callback_raises_w1(f0, f1, r0, r1): return _real_c19(2, 1, [r0, r1], [f0, f1])
def real_c19_callback_raises_w2(a0, a1, f0, f1, r0, r1): return _real_c19(2, 2, [r0, r1], [f0, f1])


def dying_callback(item, *sketches, code=1):
    import os as _os
    if item == 0:
        if code > 0:
            _os._exit(code)
        _os.kill(_os.getpid(), -code)
    for s in sketches:
        s.add(b"k%d" % item)
    return 1


def _guarded(fn, seconds):
    """run fn() in a forked child that leads its own process group; ('ok', result) | ('hang', None): on a timeout the
    whole group (spawned workers, filler, log worker) is killed"""
    import os as _os
    import pickle as _pk
    import select as _sel
    import signal as _sig
    import time as _tm
    r, w = _os.pipe()
    pid = _os.fork()
    if pid == 0:
        try:
            _os.setsid()
            _os.close(r)
            data = _pk.dumps(fn())
            with _os.fdopen(w, "wb") as fh:
                fh.write(data)
        except BaseException:
            pass
        finally:
            _os._exit(0)
    _os.close(w)
    buf = b""
    end = _tm.time() + seconds
    with _os.fdopen(r, "rb") as fh:
        while _tm.time() < end:
            ready, _, _ = _sel.select([fh], [], [], 1.0)
            if ready:
                buf = fh.read()
                break
    try:
        _os.killpg(pid, _sig.SIGKILL)
    except OSError:
        pass
    try:
        _os.waitpid(pid, 0)
    except OSError:
        pass
    if not buf:
        return "hang", None
    try:
        return "ok", _pk.loads(buf)
    except Exception:
        return "hang", None


def late_dying_callback(item, *sketches, code=1, delay=6.0):
    import os as _os
    import time as _tm
    if item == 0:
        _tm.sleep(delay)
        if code > 0:
            _os._exit(code)
        _os.kill(_os.getpid(), -code)
    for s in sketches:
        s.add(b"k%d" % item)
    return 1


def _dead_run(n_items, n_workers, cb, **kw):
    def run():
        try:
            res = HELPERS.parallel_add(list(range(n_items)), cb, n_workers=n_workers, cms_args={"cms_type": "linear", "width": 64, "depth": 2}, **kw)
        except Exception as e:
            return ("raised", type(e).__name__)
        return ("returned", int(res.n_added()), int(res.n_records()))
    return run


def real_c19_dead_worker_backlog(n_items, n_workers, code):
    """the only consumer(s) die while the filler still has more to put than the queue holds: must end with an exception"""
    if code < 0 and -code not in (9, 15, 6, 11):
        code = -9
    # the model's worker dies before it takes anything from the queue; a real callback can only die while holding an
    # item, so one extra item is submitted: the backlog the filler still has to put is the model's
    n_items = n_items + 1
    st, out = _guarded(_dead_run(n_items, n_workers, dying_callback, code=code), 90)
    if st == "hang":
        return False, f"parallel_add HANGS: {n_workers} worker(s), {n_items} items, the worker handling item 0 died with status {code}; no return and no exception within 90 s (the queue holds 3 * n_workers entries, the filler is still blocked)"
    if out[0] == "raised":
        return True, f"parallel_add raised {out[1]}"
    return False, f"a worker died with status {code} but parallel_add returned normally (n_added={out[1]}, n_records={out[2]}, {n_items} items)"


def real_c19_dead_worker_late(n_workers, dead, code, v0, v1, v2):
    """the worker that takes item 0 (the first started one, in practice) dies only after the other workers have finished
    and been seen by the parent's poll: must still end with an exception"""
    if code < 0 and -code not in (9, 15, 6, 11):
        code = -9
    n_workers = max(2, n_workers)
    msgs = []
    for attempt in range(2):
        st, out = _guarded(_dead_run(4, n_workers, late_dying_callback, code=code, delay=6.0 + 3 * attempt), 120)
        if st == "hang":
            return False, f"parallel_add HANGS after a worker died late with status {code}"
        if out[0] == "returned":
            return False, f"a worker died with status {code} after the other workers had finished, yet parallel_add returned normally (n_added={out[1]}, n_records={out[2]}; 4 items submitted, item 0 lost)"
        msgs.append(out[1])
    return True, f"parallel_add raised {msgs} in 2 runs"


def real_c19_dead_worker(n_workers, dead, code):
    """a real worker process dies on item 0 with the model's exit status: parallel_add must end with an exception"""
    if code < 0 and -code not in (9, 15, 6, 11):
        code = -9
    try:
        res = HELPERS.parallel_add(list(range(4)), dying_callback, n_workers=n_workers, cms_args={"cms_type": "linear", "width": 64, "depth": 2}, code=code)
    except Exception as e:
        return True, f"parallel_add raised {type(e).__name__} after a worker died with status {code}"
    return False, f"a worker died with exit status {code} but parallel_add returned a sketch normally (n_added={int(res.n_added())}, n_records={int(res.n_records())}; 4 items were submitted)"
