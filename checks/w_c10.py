"""Engine-W harness for C10: save/load reproduces the sketch exactly, for every sketch type.

The REAL save()/load() methods and the module-level countmin.load() run under CrossHair against an in-memory,
dtype-preserving model of np.savez/np.load (int -> float64 conversions round like IEEE above 2^53).  Shapes are
enumerated inside each condition (width 1..3, depth 1..2, max_key_len 1..2); non-shape parameters, table cells and the
bookkeeping counters are symbolic over their full ranges."""
from checks.wcommon import *  # noqa

W_STUBS = ["np.savez/np.load -> in-memory store that keeps dtype and shape (engine/shim/shims.py)", "merge kernels and HeavyHitters.generate_candidate_set are recorders", "_find_base -> constant"]
W_ASSUMPTIONS = ["'evolves identically under further operations' follows from equal state: the kernels are functions of the arrays, the scalar parameters and (log) the draws",
                 "numpy's real .npz container preserves dtype, shape and values (validated by the real-library replays)"]
W_OUTSIDE = ["the byte format on disk, truncated files (C20)", "shapes beyond the enumerated ones", "shared_memory=True loading beyond the layout obligations of C16"]

if MODE == "shim":
    kernels_record_only(CM, ["_merge_linear", "_merge_log16", "_merge_log8"])
    kernels_record_only(HLL, ["_merge"])
    kernels_record_only(HH, ["_merge"])
    GEN = []
    _orig_gen = HH.HeavyHitters.generate_candidate_set

    def _rec_gen(self, threshold=None):
        GEN.append((id(self), threshold, snap_array(self.lhh_count)))
    HH.HeavyHitters.generate_candidate_set = _rec_gen
else:
    GEN = []

SHAPES = ((1, 1), (2, 1), (3, 2))
FN = "sketch.npz"


def _tmp():
    if MODE == "shim":
        return FN
    import tempfile
    import os as _os
    d = tempfile.mkdtemp(prefix="verif_c10_")
    return _os.path.join(d, FN)


def tolist(a):
    return a.tolist() if hasattr(a, "tolist") else list(a)


def same_state(s, t, names):
    ok = type(s) is type(t)
    for n in names:
        x, y = getattr(s, n), getattr(t, n)
        if hasattr(x, "shape") and getattr(x, "shape", ()) != ():
            ok = ok and tuple(x.shape) == tuple(y.shape) and tolist(x) == tolist(y) and x.dtype == y.dtype
        else:
            ok = ok and x == y
    return ok


def _drop(t):
    """release a sketch loaded into shared memory (real mode: frees the segment now rather than at interpreter exit)"""
    if MODE != "shim":
        try:
            t.__del__()
            t.shm = None
        except Exception:
            pass


def merges(s, t):
    clear_calls()
    try:
        s.merge(t)
    except TypeError:
        return False
    return True


def _fill_cm(s, c0, c1, na, nr):
    d, w = s.cms.shape
    s.cms[0, 0] = c0
    s.cms[ival(d) - 1, ival(w) - 1] = c1
    s.n_added_records[0] = na
    s.n_added_records[1] = nr


def _cm_roundtrip(make, names, c0, c1, na, nr, cls_load):
    ok = True
    for (w, d) in SHAPES:
        s = make(w, d)
        _fill_cm(s, c0, c1, na, nr)
        f = _tmp()
        s.save(f)
        for loader in (CM.load, cls_load):
            for shm in (False, True):
                t = loader(f, shm)
                ok = ok and same_state(s, t, names) and t.n_added() == s.n_added() and t.n_records() == s.n_records() and merges(s, t)
                ok = ok and (hasattr(t, "shm") == shm)
                _fill_cm(s, c0, c1, na, nr)
                if shm:
                    _drop(t)
    return ok


def check_linear(c0: int, c1: int, na: int, nr: int) -> bool:
    """
    pre: 0 <= c0 < 2**32 and 0 <= c1 < 2**32 and 0 <= na < 2**64 and 0 <= nr < 2**64
    post: _ == True
    """
    return _cm_roundtrip(lambda w, d: CM.CountMinLinear(w, d), ("width", "depth", "uint_maxval", "cms", "n_added_records"), c0, c1, na, nr, CM.CountMinLinear.load)


def check_log16(mc: int, res: int, c0: int, c1: int, na: int, nr: int) -> bool:
    """
    pre: 70000 <= mc < 2**64 and 0 <= res < 65535 and 0 <= c0 < 2**16 and 0 <= c1 < 2**16 and 0 <= na < 2**64 and 0 <= nr < 2**64
    post: _ == True
    """
    return _cm_roundtrip(lambda w, d: CM.CountMinLog16(w, d, mc, res), ("width", "depth", "uint_maxval", "max_count", "num_reserved", "base", "cms", "n_added_records"), c0, c1, na, nr, CM.CountMinLog16.load)


def check_log8(mc: int, res: int, c0: int, c1: int, na: int, nr: int) -> bool:
    """
    pre: 300 <= mc < 2**64 and 0 <= res < 255 and 0 <= c0 < 2**8 and 0 <= c1 < 2**8 and 0 <= na < 2**64 and 0 <= nr < 2**64
    post: _ == True
    """
    return _cm_roundtrip(lambda w, d: CM.CountMinLog8(w, d, mc, res), ("width", "depth", "uint_maxval", "max_count", "num_reserved", "base", "cms", "n_added_records"), c0, c1, na, nr, CM.CountMinLog8.load)


def check_cross_loaders(which: int) -> bool:
    """
    pre: 0 <= which <= 2
    post: _ == True
    """
    makers = (lambda: CM.CountMinLinear(2, 1), lambda: CM.CountMinLog16(2, 1), lambda: CM.CountMinLog8(2, 1))
    loaders = (CM.CountMinLinear.load, CM.CountMinLog16.load, CM.CountMinLog8.load)
    ok = True
    for i in range(3):
        if which == i:
            s = makers(i)() if False else makers[i]()
            f = _tmp()
            s.save(f)
            for j in range(3):
                try:
                    t = loaders[j](f)
                    ok = ok and i == j and type(t) is type(s)
                except TypeError:
                    ok = ok and i != j
            ok = ok and type(CM.load(f)) is type(s)
    return ok


def check_hll(p: int, seed: int, r0: int, r1: int) -> bool:
    """
    pre: 7 <= p <= 8 and 0 <= seed < 2**64 and 0 <= r0 <= 64 and 0 <= r1 <= 64
    post: _ == True
    """
    ok = True
    for pp in (7, 8):
        if p == pp:
            s = HLL.HyperLogLog(pp, seed)
            s.registers[0] = r0
            s.registers[(1 << pp) - 1] = r1
            f = _tmp()
            s.save(f)
            for shm in (False, True):
                t = HLL.HyperLogLog.load(f, shm)
                ok = ok and same_state(s, t, ("p", "seed", "m", "alpha", "threshold", "registers")) and merges(s, t) and (hasattr(t, "shm") == shm)
                if shm:
                    _drop(t)
    return ok


def _hh_roundtrip(w, d, k, phi, b0, ln, c0, c1, na, nr):
    s = HH.HeavyHitters(w, d, k) if phi is None else HH.HeavyHitters(w, d, k, phi)
    s.lhh[0, 0, 0] = b0
    s.key_lens[0, 0] = ln
    s.lhh_count[0, 0] = c0
    s.lhh_count[d - 1, w - 1] = c1
    s.n_added_records[0] = na
    s.n_added_records[1] = nr
    f = _tmp()
    s.save(f)
    del GEN[:]
    t = HH.HeavyHitters.load(f)
    ok = same_state(s, t, ("width", "depth", "max_key_len", "phi", "uint_maxval", "lhh", "lhh_count", "key_lens", "n_added_records"))
    ok = ok and t.n_added() == s.n_added() and t.n_records() == s.n_records() and merges(s, t)
    # ... and into shared memory
    t2 = HH.HeavyHitters.load(f, True)
    ok = ok and same_state(s, t2, ("width", "depth", "max_key_len", "phi", "uint_maxval", "lhh", "lhh_count", "key_lens", "n_added_records")) and hasattr(t2, "shm")
    _drop(t2)
    del GEN[1:]
    if MODE == "shim":
        # the cache is rebuilt exactly once, after the tables were copied
        ok = ok and len(GEN) == 1 and GEN[0][0] == id(t) and GEN[0][1] is None and GEN[0][2] == snap_array(s.lhh_count)
    return ok


def check_hh(b0: int, ln: int, c0: int, c1: int, na: int, nr: int) -> bool:
    """
    pre: 0 <= b0 < 256 and 0 <= ln <= 1 and 0 <= c0 < 2**32 and 0 <= c1 < 2**32 and 0 <= na < 2**64 and 0 <= nr < 2**64
    post: _ == True
    """
    ok = True
    for (w, d, k) in ((1, 1, 1), (2, 1, 2), (3, 2, 1), (1, 1, 4)):
        ok = ok and _hh_roundtrip(w, d, k, None, b0, ln, c0, c1, na, nr)
    return ok


def check_hh_phi(phi: float, c0: int) -> bool:
    """
    pre: 0.0 < phi < 1.0 and 0 <= c0 < 2**32
    post: _ == True
    """
    return _hh_roundtrip(2, 1, 1, phi, 7, 1, c0, c0, c0, 0)


def check_twin_hll_seed_changes(seed: int) -> bool:
    """
    pre: 0 <= seed < 2**64
    post: _ == True
    """
    s = HLL.HyperLogLog(7, seed)
    f = _tmp()
    s.save(f)
    return HLL.HyperLogLog.load(f).seed != s.seed      # false claim: must be refuted

# ---------------------------------------------------------------------------------------------- real-library replays
def _real_cm(make, names, c0, c1, na, nr, cls_load):
    try:
        ok = _cm_roundtrip(make, names, c0, c1, na, nr, cls_load)
    except ValueError as e:
        return True, f"constructor refused the configuration: {e}"
    return ok, "save -> load round trip (module-level load and class loader) " + ("reproduces" if ok else "DOES NOT reproduce") + " class, parameters, table, n_added, n_records and mergeability"


def real_linear(c0, c1, na, nr):
    return _real_cm(lambda w, d: CM.CountMinLinear(w, d), ("width", "depth", "uint_maxval", "cms", "n_added_records"), c0, c1, na, nr, CM.CountMinLinear.load)


def real_log16(mc, res, c0, c1, na, nr):
    return _real_cm(lambda w, d: CM.CountMinLog16(w, d, mc, res), ("width", "depth", "uint_maxval", "max_count", "num_reserved", "base", "cms", "n_added_records"), c0, c1, na, nr, CM.CountMinLog16.load)


def real_log8(mc, res, c0, c1, na, nr):
    return _real_cm(lambda w, d: CM.CountMinLog8(w, d, mc, res), ("width", "depth", "uint_maxval", "max_count", "num_reserved", "base", "cms", "n_added_records"), c0, c1, na, nr, CM.CountMinLog8.load)


def real_cross_loaders(which):
    ok = check_cross_loaders(which)
    return ok, "class loaders accept only their own counter type; module-level load dispatches to the writer's class" if ok else "a class loader accepted a foreign counter type / wrong dispatch"


def real_hll(p, seed, r0, r1):
    ok = check_hll(p, seed, r0, r1)
    return ok, f"HyperLogLog(p={p}, seed={seed}) round trip " + ("ok" if ok else "LOST p/seed/registers or cannot merge with the original")


def real_hh(b0, ln, c0, c1, na, nr):
    msgs = []
    for (w, d, k) in ((1, 1, 1), (2, 1, 2), (3, 2, 1), (1, 1, 4), (1, 1, 16), (5, 3, 7)):
        try:
            ok = _hh_roundtrip(w, d, k, None, b0, ln, c0, c1, na, nr)
        except Exception as e:
            ok = False
            msgs.append(f"HeavyHitters({w},{d},{k}) saved with default phi cannot be loaded: {type(e).__name__}: {e}")
            if w == 1:
                return False, msgs[-1], "hh-width1-default-phi"
            continue
        if not ok:
            msgs.append(f"HeavyHitters({w},{d},{k}) round trip does not reproduce the sketch")
    return (not msgs), "; ".join(msgs) or "round trips reproduce the sketches"


def real_hh_phi(phi, c0):
    for ph in [float(phi), 0.7, 0.9, 0.35, 0.01, 1.0 / 3.0]:
        ok = _hh_roundtrip(2, 1, 1, ph, 7, 1, c0, c0, c0, 0)
        if not ok:
            return False, f"HeavyHitters(2,1,1,phi={ph!r}): save -> load does not reproduce the sketch (phi / tables / bookkeeping differ)"
    return True, "round trips reproduce the sketches"
