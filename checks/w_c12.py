"""Engine-W harness for C12 (entry points) and the wrapper part of C01/C05/C06 (multiplicity cap, random pointer).

The REAL add / update / add_ngram / update_ngram / __getitem__ / query methods of all five classes run under CrossHair;
the jitted kernels are call recorders returning tokens, so the property is stated over the kernel-call trace: batch and
dict entry points produce exactly the trace of the corresponding loop of single adds."""
from typing import Dict, List
from checks.wcommon import *  # noqa
if MODE == "shim":
    from engine.shim import shims as _sh

W_STUBS = ["kernels (_add*, _add_ngram*, _query*, _counter2value) are call recorders returning tokens", "numpy/numba/SharedMemory shimmed"]
W_ASSUMPTIONS = ["what one kernel call does is decided by the engine-K checks (C01..C05, C12 K part)"]
W_OUTSIDE = ["lists/dicts longer than CrossHair's exploration reaches within the condition timeout are covered only by the loop's uniformity"]

MAX32 = 2 ** 32 - 1
PTR = [1000]

if MODE == "shim":
    def _ptr_kernel(*a):
        PTR[0] += 1
        return PTR[0]
    kernels_record_only(CM, ["_add_linear", "_add_ngram_linear"])
    for n in ("_add_log16", "_add_log8", "_add_ngram_log16", "_add_ngram_log8"):
        kernel_impl(CM, n, _ptr_kernel)
    kernels_record_only(CM, ["_query_linear", "_query_log16", "_query_log8"], ret=7)
    kernel_impl(CM, "_counter2value", lambda c, nr, b: ("decoded", c), record=True)
    kernels_record_only(HH, ["_add", "_add_ngram"])
    kernels_record_only(HH, ["_max_count"], ret=5)
    kernels_record_only(HLL, ["_add", "_add_ngram"])
    kernels_record_only(HLL, ["_query"], ret=3.5)


def mk(kind):
    if kind == 0:
        return CM.CountMinLinear(4, 2)
    if kind == 1:
        return CM.CountMinLog16(4, 2)
    if kind == 2:
        return CM.CountMinLog8(4, 2)
    if kind == 3:
        return HH.HeavyHitters(4, 2, 3, 0.25)
    return HLL.HyperLogLog(7, 9)


def trace():
    """(kernel name, key argument, last scalar argument) of every recorded kernel call"""
    out = []
    for name, args in calls():
        key = [a for a in args if isinstance(a, (bytes, bytearray)) or type(a).__name__ in ("SymbolicBytes", "bytes")]
        out.append((name, key[0] if key else None, args[-1] if args else None))
    return out


def scalars(args):
    return [ival(a) if hasattr(a, "v") else a for a in args if not hasattr(a, "shape")]


def _update_list(kind: int, keys: List[bytes]) -> bool:
    a, b = mk(kind), mk(kind)
    clear_calls()
    a.update(keys)
    t1 = [(n, scalars(x)) for n, x in calls()]
    ptr_a = getattr(a, "rand_ptr", None)
    PTR[0] = 1000
    clear_calls()
    for k in keys:
        b.add(k)
    t2 = [(n, scalars(x)) for n, x in calls()]
    return t1 == t2 and len(t1) == len(keys)


def check_update_list_linear(keys: List[bytes]) -> bool:
    """
    pre: len(keys) <= 3 and all(len(k) <= 2 for k in keys)
    post: _ == True
    """
    PTR[0] = 1000
    return _update_list(0, keys)


def check_update_list_log16(keys: List[bytes]) -> bool:
    """
    pre: len(keys) <= 3 and all(len(k) <= 2 for k in keys)
    post: _ == True
    """
    PTR[0] = 1000
    return _update_list(1, keys)


def check_update_list_log8(keys: List[bytes]) -> bool:
    """
    pre: len(keys) <= 3 and all(len(k) <= 2 for k in keys)
    post: _ == True
    """
    PTR[0] = 1000
    return _update_list(2, keys)


def check_update_list_hh(keys: List[bytes]) -> bool:
    """
    pre: len(keys) <= 3 and all(len(k) <= 2 for k in keys)
    post: _ == True
    """
    return _update_list(3, keys)


def check_update_list_hll(keys: List[bytes]) -> bool:
    """
    pre: len(keys) <= 3 and all(len(k) <= 2 for k in keys)
    post: _ == True
    """
    return _update_list(4, keys)


def _expect_add(kind, sk, key, value):
    """the single kernel call the documentation promises for add(key, value)"""
    if kind in (0, 3):
        return min(value, MAX32)
    return value


def _add_value(kind: int, value: int) -> bool:
    """add(key, value): one kernel call, multiplicity min(value, 2^32-1) for linear / heavy hitters, value for log,
    none for HyperLogLog; log sketches store the returned random pointer"""
    sk = mk(kind)
    PTR[0] = 1000
    clear_calls()
    sk.add(b"ab", value)
    cs = calls()
    if len(cs) != 1:
        return False
    name, args = cs[0]
    sc = scalars(args)
    if kind == 4:
        return name == "_add" and len(args) == 5 and args[0] is sk.registers and args[1] == sk.seed and args[2] == sk.p and args[3] == sk.m and args[4] == b"ab"
    ok = sc[-1] == _expect_add(kind, sk, b"ab", value) and sc[-2] == b"ab"
    if kind in (1, 2):
        ok = ok and sk.rand_ptr == 1001 and sc[-3] == 0
    # the complete documented argument list: the sketch's own arrays and parameters, in order
    if kind == 0:
        want = [sk.cms, sk.n_added_records, sk.buckets, sk.width, sk.depth, sk.uint_maxval]
    elif kind in (1, 2):
        want = [sk.cms, sk.n_added_records, sk.buckets, sk.width, sk.depth, sk.uint_maxval, sk.num_reserved, sk.base, sk.rand_nums]
    else:
        want = [sk.lhh, sk.lhh_count, sk.key_lens, sk.n_added_records, sk.width, sk.depth, sk.max_key_len, sk.uint_maxval]
    for x, w in zip(args, want):
        if hasattr(w, "shape") and hasattr(w, "data"):
            ok = ok and x is w
        else:
            ok = ok and x == w
    return ok and len(args) == len(want) + (3 if kind in (1, 2) else 2)


def check_add_value_linear(value: int) -> bool:
    """
    pre: 0 <= value <= 2**40
    post: _ == True
    """
    return _add_value(0, value)


def check_add_value_log16(value: int) -> bool:
    """
    pre: 0 <= value <= 2**40
    post: _ == True
    """
    return _add_value(1, value)


def check_add_value_log8(value: int) -> bool:
    """
    pre: 0 <= value <= 2**40
    post: _ == True
    """
    return _add_value(2, value)


def check_add_value_hh(value: int) -> bool:
    """
    pre: 0 <= value <= 2**40
    post: _ == True
    """
    return _add_value(3, value)


def check_add_value_hll(value: int) -> bool:
    """
    pre: 0 <= value <= 2**40
    post: _ == True
    """
    return _add_value(4, value)


def _update_dict(kind: int, v1: int, v2: int, same_key: bool) -> bool:
    """update({k1: v1, k2: v2}) == add(k1, v1); add(k2, v2) (HyperLogLog: add(k1); add(k2)) as kernel-call traces"""
    d = {b"a": v1} if same_key else {b"a": v1, b"b\x00": v2}
    a, b = mk(kind), mk(kind)
    PTR[0] = 1000
    clear_calls()
    a.update(d)
    t1 = [(n, scalars(x)) for n, x in calls()]
    PTR[0] = 1000
    clear_calls()
    for k, v in d.items():
        if kind == 4:
            b.add(k)
        else:
            b.add(k, v)
    t2 = [(n, scalars(x)) for n, x in calls()]
    if kind == 4:
        return t1 == t2 and len(t1) == len(d)
    want = [_expect_add(kind, a, k, v) for k, v in d.items()]
    return t1 == t2 and [t[1][-1] for t in t1] == want and [t[1][-2] for t in t1] == list(d.keys())


def check_update_dict_linear(v1: int, v2: int, same_key: bool) -> bool:
    """
    pre: 0 <= v1 <= 2**40 and 0 <= v2 <= 2**40
    post: _ == True
    """
    return _update_dict(0, v1, v2, same_key)


def check_update_dict_log16(v1: int, v2: int, same_key: bool) -> bool:
    """
    pre: 0 <= v1 <= 2**40 and 0 <= v2 <= 2**40
    post: _ == True
    """
    return _update_dict(1, v1, v2, same_key)


def check_update_dict_log8(v1: int, v2: int, same_key: bool) -> bool:
    """
    pre: 0 <= v1 <= 2**40 and 0 <= v2 <= 2**40
    post: _ == True
    """
    return _update_dict(2, v1, v2, same_key)


def check_update_dict_hh(v1: int, v2: int, same_key: bool) -> bool:
    """
    pre: 0 <= v1 <= 2**40 and 0 <= v2 <= 2**40
    post: _ == True
    """
    return _update_dict(3, v1, v2, same_key)


def check_update_dict_hll(v1: int, v2: int, same_key: bool) -> bool:
    """
    pre: 0 <= v1 <= 2**40 and 0 <= v2 <= 2**40
    post: _ == True
    """
    return _update_dict(4, v1, v2, same_key)


def _ngram(kind: int, n: int, nkeys: int) -> bool:
    """add_ngram(key, n): one ngram-kernel call with uint64(n) and, for log sketches, the pointer stored back;
    update_ngram(keys, n) == add_ngram per element in order"""
    keys = [b"abcdef", b"", b"xy"][:nkeys]
    a, b = mk(kind), mk(kind)
    PTR[0] = 1000
    clear_calls()
    a.update_ngram(keys, n)
    t1 = [(nm, scalars(x)) for nm, x in calls()]
    pa = getattr(a, "rand_ptr", None)
    PTR[0] = 1000
    clear_calls()
    for k in keys:
        b.add_ngram(k, n)
    t2 = [(nm, scalars(x)) for nm, x in calls()]
    pb = getattr(b, "rand_ptr", None)
    ok = t1 == t2 and len(t1) == nkeys and all(t[1][-1] == n and t[1][-2] == k for t, k in zip(t1, keys)) and all("ngram" in t[0] for t in t1)
    if kind in (1, 2):
        ok = ok and pa == pb == (1000 + nkeys if nkeys else 0)
        # each call receives the pointer stored by the previous one
        ptrs = [t[1][-3] for t in t1]
        ok = ok and ptrs == [0] + [1001 + i for i in range(nkeys - 1)][:max(0, nkeys - 1)] if nkeys else ok
    return ok


def check_ngram_linear(n: int, nkeys: int) -> bool:
    """
    pre: 1 <= n < 2**63 and 0 <= nkeys <= 3
    post: _ == True
    """
    return _ngram(0, n, nkeys)


def check_ngram_log16(n: int, nkeys: int) -> bool:
    """
    pre: 1 <= n < 2**63 and 0 <= nkeys <= 3
    post: _ == True
    """
    return _ngram(1, n, nkeys)


def check_ngram_log8(n: int, nkeys: int) -> bool:
    """
    pre: 1 <= n < 2**63 and 0 <= nkeys <= 3
    post: _ == True
    """
    return _ngram(2, n, nkeys)


def check_ngram_hh(n: int, nkeys: int) -> bool:
    """
    pre: 1 <= n < 2**63 and 0 <= nkeys <= 3
    post: _ == True
    """
    return _ngram(3, n, nkeys)


def check_ngram_hll(n: int, nkeys: int) -> bool:
    """
    pre: 1 <= n < 2**63 and 0 <= nkeys <= 3
    post: _ == True
    """
    return _ngram(4, n, nkeys)


def check_getitem(kind: int, key: bytes) -> bool:
    """
    pre: 0 <= kind <= 3 and len(key) <= 3
    post: _ == True
    """
    for k in range(4):
        if kind == k:
            kind = k
    sk = mk(kind)
    clear_calls()
    if kind == 3:
        r1 = sk[key]
        c1 = [(n, scalars(x)) for n, x in calls()]
        return r1 == 5 and len(c1) == 1 and c1[0][0] == "_max_count" and c1[0][1][-2] == key and c1[0][1][-1] == len(key)
    r1 = sk[key]
    c1 = [(n, scalars(x)) for n, x in calls()]
    clear_calls()
    r2 = sk.query(key)
    c2 = [(n, scalars(x)) for n, x in calls()]
    return r1 == r2 and c1 == c2 and len(c1) >= 1 and c1[0][1][-1] == key


def check_query_glue(kind: int) -> bool:
    """
    pre: 0 <= kind <= 2
    post: _ == True
    """
    for k in range(3):
        if kind == k:
            sk = mk(k)
            clear_calls()
            r = sk.query(b"xy")
            cs = calls()
            qn = ("_query_linear", "_query_log16", "_query_log8")[k]
            ok = len(cs) >= 1 and cs[0][0] == qn and len(cs[0][1]) == 6
            a = cs[0][1]
            ok = ok and a[0] is sk.cms and a[1] is sk.buckets and a[2] == sk.width and a[3] == sk.depth and a[4] == sk.uint_maxval and a[5] == b"xy"
            if k == 0:
                return ok and len(cs) == 1 and r == 7
            # log sketches decode the smallest counter with their own num_reserved and base
            ok = ok and len(cs) == 2 and cs[1][0] == "_counter2value" and cs[1][1][0] == 7 and cs[1][1][1] == sk.num_reserved and cs[1][1][2] == sk.base
            return ok and r == ("decoded", 7)
    return True


def _pool_seeded_freshly(sk):
    """the generator the pool of draws comes from is seeded from OS entropy, directly or through an integer drawn from an
    entropy-seeded generator over a range of at least 2^32 values and handed on unchanged (so two sketches, processes or
    parallel_add workers do not share their draws)"""
    log = _sh.RNG["log"]
    pools = [e for e in log if e[0] == "random"]
    if len(pools) != 1 or pools[0][2] != 2048:
        return False
    gen = pools[0][1]
    if gen.seed is None:
        return True
    for e in log:
        if e[0] == "integers" and e[1].seed is None and e[3] - e[2] >= 2 ** 32 and gen.seed == e[4]:
            return True
    return False


def check_log_ctor(kind: int, mc: int, res: int, tok: int) -> bool:
    """
    pre: 1 <= kind <= 2 and 70000 <= mc < 2**64 and 0 <= res < 255 and 0 <= tok < 2**63
    post: _ == True
    """
    for k in (1, 2):
        if kind == k:
            _sh.RNG["tok"] = tok
            del _sh.RNG["log"][:]
            sk = CM.CountMinLog16(3, 2, mc, res) if k == 1 else CM.CountMinLog8(3, 2, mc, res)
            return sk.rand_ptr == 0 and tuple(sk.rand_nums.shape) == (2048,) and _pool_seeded_freshly(sk)
    return True


def check_twin_cap_reachable(value: int) -> bool:
    """
    pre: 0 <= value <= 2**40
    post: _ == True
    """
    sk = mk(0)
    clear_calls()
    sk.add(b"ab", value)
    return scalars(calls()[0][1])[-1] == value      # false claim ("never capped"): refuted for value > 2^32-1

# ---------------------------------------------------------------------------------------------- real-library replays
def real_query_glue(kind):
    sk = mk(kind)
    sk.add(b"xy", 3)
    sk.add(b"zz", 200)
    got = sk.query(b"xy")
    return float(got) == 3.0, f"query(b'xy') after add(b'xy', 3), add(b'zz', 200) on a 4x2 sketch = {got}"


def real_log_ctor(kind, mc, res, tok=0):
    cls = CM.CountMinLog16 if kind == 1 else CM.CountMinLog8
    try:
        sk = cls(3, 2, mc, res)
    except ValueError:
        return True, "constructor refused the configuration"
    ok = int(sk.rand_ptr) == 0 and sk.rand_nums.shape == (2048,) and float(sk.rand_nums.min()) >= 0.0 and float(sk.rand_nums.max()) < 1.0
    # freshly seeded pools: 24 sketches of this class never start from the same draws
    firsts = set()
    for _ in range(24):
        firsts.add(tuple(float(x) for x in cls(3, 2, mc, res).rand_nums[:4]))
    if len(firsts) < 24:
        return False, f"24 new {cls.__name__} sketches start from only {len(firsts)} distinct pool(s) of draws: the pool generator is not freshly seeded"
    return ok, f"rand_ptr={sk.rand_ptr}, batch shape {sk.rand_nums.shape}, 24 sketches with 24 distinct pools"


def _state(sk):
    out = []
    for nm in ("cms", "n_added_records", "lhh", "lhh_count", "key_lens", "registers"):
        if hasattr(sk, nm):
            out.append((nm, np.array(getattr(sk, nm)).tolist()))
    if hasattr(sk, "rand_ptr"):
        out.append(("rand_ptr", int(sk.rand_ptr)))
    return out


def _twin(kind):
    a, b = mk(kind), mk(kind)
    for s in (a, b):
        if hasattr(s, "rand_nums"):
            s.rand_nums[:] = np.linspace(0.0, 0.999, 2048)
            s.rand_ptr = 0
    return a, b


def _real_update_list(kind, keys):
    a, b = _twin(kind)
    a.update(list(keys))
    for k in keys:
        b.add(k)
    return _state(a) == _state(b), f"update({list(keys)!r}) vs loop of add(): states {'equal' if _state(a) == _state(b) else 'DIFFER'}"


def real_update_list_linear(keys): return _real_update_list(0, keys)
def real_update_list_log16(keys): return _real_update_list(1, keys)
def real_update_list_log8(keys): return _real_update_list(2, keys)
def real_update_list_hh(keys): return _real_update_list(3, keys)
def real_update_list_hll(keys): return _real_update_list(4, keys)


def _real_add_value(kind, value):
    """add(key, value) vs the documented effect, observed through the public state"""
    if kind in (0, 3):
        a, b = _twin(kind)
        a.add(b"ab", value)
        b.add(b"ab", min(value, MAX32))
        exp_n = min(value, MAX32)
        ok = _state(a) == _state(b) and int(a.n_added()) == exp_n and (int(a[b"ab"]) == exp_n)
        return ok, f"add(b'ab', {value}): n_added={int(a.n_added())} estimate={int(a[b'ab'])} expected {exp_n}"
    if kind == 4:
        a, b = _twin(kind)
        a.add(b"ab", value)
        b.add(b"ab")
        return _state(a) == _state(b), "HyperLogLog.add ignores the multiplicity"
    v = min(value, 5000)
    a, b = _twin(kind)
    a.add(b"ab", v)
    for _ in range(v):
        b.add(b"ab", 1)
    return _state(a) == _state(b) and int(a.n_added()) == v, f"log add(b'ab', {v}) vs {v} unit adds under identical draws: n_added={int(a.n_added())}"


def real_add_value_linear(value): return _real_add_value(0, value)
def real_add_value_log16(value): return _real_add_value(1, value)
def real_add_value_log8(value): return _real_add_value(2, value)
def real_add_value_hh(value): return _real_add_value(3, value)
def real_add_value_hll(value): return _real_add_value(4, value)


def _real_update_dict(kind, v1, v2, same_key):
    cap = (lambda v: min(v, 3000)) if kind in (1, 2) else (lambda v: v)
    d = {b"a": cap(v1)} if same_key else {b"a": cap(v1), b"b\x00": cap(v2)}
    a, b = _twin(kind)
    a.update(dict(d))
    for k, v in d.items():
        if kind == 4:
            b.add(k)
        else:
            b.add(k, v)
    ok = _state(a) == _state(b)
    det = f"update({d!r}) vs add per item: states {'equal' if ok else 'DIFFER'}"
    if kind in (0, 3) and ok:
        # ... and equals the documented counts
        for k, v in d.items():
            if int(a[k]) != min(v, MAX32) and len(d) == 1:
                ok = False
                det = f"update({d!r}): estimate of {k!r} is {int(a[k])}, expected {min(v, MAX32)}"
        want_n = sum(min(v, MAX32) for v in d.values())
        if int(a.n_added()) != want_n:
            ok = False
            det = f"update({d!r}): n_added()={int(a.n_added())}, expected {want_n}"
    return ok, det


def real_update_dict_linear(v1, v2, same_key): return _real_update_dict(0, v1, v2, same_key)
def real_update_dict_log16(v1, v2, same_key): return _real_update_dict(1, v1, v2, same_key)
def real_update_dict_log8(v1, v2, same_key): return _real_update_dict(2, v1, v2, same_key)
def real_update_dict_hh(v1, v2, same_key): return _real_update_dict(3, v1, v2, same_key)
def real_update_dict_hll(v1, v2, same_key): return _real_update_dict(4, v1, v2, same_key)


def _real_ngram(kind, n, nkeys):
    keys = [b"abcdef", b"", b"xy"][:nkeys]
    a, b = _twin(kind)
    for s in (a, b):
        if hasattr(s, "rand_nums"):
            s.cms[:] = s.uint_maxval - 3
    a.update_ngram(list(keys), n)
    for k in keys:
        wins = [k] if len(k) <= n else [k[i:i + n] for i in range(len(k) - n + 1)]
        for w in wins:
            b.add(w)
    return _state(a) == _state(b), f"update_ngram({keys!r}, {n}) vs adding every window: states {'equal' if _state(a) == _state(b) else 'DIFFER'}"


def real_ngram_linear(n, nkeys): return _real_ngram(0, n, nkeys)
def real_ngram_log16(n, nkeys): return _real_ngram(1, n, nkeys)
def real_ngram_log8(n, nkeys): return _real_ngram(2, n, nkeys)
def real_ngram_hh(n, nkeys): return _real_ngram(3, n, nkeys)
def real_ngram_hll(n, nkeys): return _real_ngram(4, n, nkeys)


def real_getitem(kind, key):
    sk = mk(kind)
    sk.add(key[:3], 5)
    sk.add(b"zz", 2)
    if kind == 3:
        want = 5 if key[:3] != b"zz" else 7
        return int(sk[key]) == want, f"hh[{key!r}] = {int(sk[key])}, expected {want}"
    return sk[key] == sk.query(key), f"sketch[key]={sk[key]} query(key)={sk.query(key)}"
