"""Engine-W harness for C13: query(k, threshold) is the exact, fresh top-k of the sketch's stored counts.

The REAL HeavyHitters.query / generate_candidate_set / __getitem__ run under CrossHair, with _max_count's own Python
source executing on the shim arrays (width 1: every key in column 0; depth 2).  Stored keys are enumerated as concrete
alias patterns (distinct, same key in both rows, NUL-padded alias, empty key, all-NUL key, empty cell); both counts, the
threshold, k and the cached (n_added_sort, threshold_sort) pair are symbolic over their full ranges."""
from checks.wcommon import *  # noqa

W_STUBS = ["fasthash64 -> 0 (width 1: one column per row)", "_max_count runs its own Python source on the shim arrays", "collections.Counter.most_common is the trusted library contract for ordering/truncation"]
W_ASSUMPTIONS = ["freshness for arbitrary histories follows from lemma A (query rebuilds exactly when n_added grew or the threshold differs), lemma B (every mutator that changes the tables strictly increases n_added: engine K, checks/c13.py) and lemma C (load rebuilds the cache, C10)"]
W_OUTSIDE = ["depth > 2, width > 1 (row/column scan loops are uniform)", "thresholds >= 2^32 (numpy raises OverflowError)", "n_added wrapping 2^64"]

if MODE == "shim":
    kernel_impl(HH, "fasthash64", lambda key, seed: np.uint64(0), record=False)
    HH._max_count.record = False

# alias patterns: ((bytes row0, len row0), (bytes row1, len row1)) with max_key_len 2
PATTERNS = {
    "distinct": ((b"a\x00", 1), (b"bc", 2)),
    "same": ((b"ab", 2), (b"ab", 2)),
    "nul_alias": ((b"a\x00", 1), (b"a\x00", 2)),
    "empty_key": ((b"\x00\x00", 0), (b"a\x00", 1)),
    "all_nul": ((b"\x00\x00", 2), (b"\x00\x00", 1)),
    "empty_and_allnul": ((b"\x00\x00", 0), (b"\x00\x00", 2)),
}


def mk(pattern, c0, c1, nadd, phi=0.5):
    hh = HH.HeavyHitters(1, 2, 2, phi)
    for r, ((bs, ln), c) in enumerate(zip(PATTERNS[pattern], (c0, c1))):
        hh.lhh[r, 0, 0] = bs[0]
        hh.lhh[r, 0, 1] = bs[1]
        hh.key_lens[r, 0] = ln
        hh.lhh_count[r, 0] = c
    hh.n_added_records[0] = nadd
    return hh


def stored(pattern, c0, c1):
    """distinct stored keys with the count hh[key] should report (max over the rows storing exactly that key)"""
    out = {}
    for ((bs, ln), c) in zip(PATTERNS[pattern], (c0, c1)):
        if c > 0:
            k = bytes(bs[:ln])
            out[k] = c if k not in out or c > out[k] else out[k]
    return out


def _query_ok(pattern, c0, c1, k, thr):
    hh = mk(pattern, c0, c1, c0 + c1 + 1)
    res = hh.query(k, thr)
    keys = [kk for kk, _ in res]
    ok = len(res) <= k and len(set(keys)) == len(keys)
    ok = ok and all(res[i][1] >= res[i + 1][1] for i in range(len(res) - 1))
    want = stored(pattern, c0, c1)
    ok = ok and all(cnt >= thr and cnt == hh[kk] and kk in want and cnt == want[kk] for kk, cnt in res)
    full = hh.query(10, thr)
    ok = ok and [c for _, c in full[:k]] == [c for _, c in res]
    fk = [kk for kk, _ in full]
    for kk, c in want.items():
        if c >= (thr if thr > 1 else 1):
            ok = ok and kk in fk
    return ok


def check_query_distinct(c0: int, c1: int, k: int, thr: int) -> bool:
    """
    pre: 0 <= c0 < 2**32 and 0 <= c1 < 2**32 and 1 <= k <= 3 and 0 <= thr < 2**32
    post: _ == True
    """
    return _query_ok("distinct", c0, c1, k, thr)


def check_query_same(c0: int, c1: int, k: int, thr: int) -> bool:
    """
    pre: 0 <= c0 < 2**32 and 0 <= c1 < 2**32 and 1 <= k <= 3 and 0 <= thr < 2**32
    post: _ == True
    """
    return _query_ok("same", c0, c1, k, thr)


def check_query_nul_alias(c0: int, c1: int, k: int, thr: int) -> bool:
    """
    pre: 0 <= c0 < 2**32 and 0 <= c1 < 2**32 and 1 <= k <= 3 and 0 <= thr < 2**32
    post: _ == True
    """
    return _query_ok("nul_alias", c0, c1, k, thr)


def check_query_empty_key(c0: int, c1: int, k: int, thr: int) -> bool:
    """
    pre: 0 <= c0 < 2**32 and 0 <= c1 < 2**32 and 1 <= k <= 3 and 0 <= thr < 2**32
    post: _ == True
    """
    return _query_ok("empty_key", c0, c1, k, thr)


def check_query_all_nul(c0: int, c1: int, k: int, thr: int) -> bool:
    """
    pre: 0 <= c0 < 2**32 and 0 <= c1 < 2**32 and 1 <= k <= 3 and 0 <= thr < 2**32
    post: _ == True
    """
    return _query_ok("all_nul", c0, c1, k, thr)


def check_query_empty_and_allnul(c0: int, c1: int, k: int, thr: int) -> bool:
    """
    pre: 0 <= c0 < 2**32 and 0 <= c1 < 2**32 and 1 <= k <= 3 and 0 <= thr < 2**32
    post: _ == True
    """
    return _query_ok("empty_and_allnul", c0, c1, k, thr)


def _fresh(hh, thr):
    """the answer a sketch with no cache would give (what a freshly loaded copy returns)"""
    f = HH.HeavyHitters(1, 2, 2, 0.5)
    for r in range(2):
        for i in range(2):
            f.lhh[r, 0, i] = hh.lhh[r, 0, i]
        f.key_lens[r, 0] = hh.key_lens[r, 0]
        f.lhh_count[r, 0] = hh.lhh_count[r, 0]
    f.n_added_records[0] = hh.n_added_records[0]
    return f.query(10, thr)


def _second_query(pattern, t1, t2, grow, use_none1, use_none2):
    """lemma A: after a first query (threshold t1 or default) either nothing changes (grow == 0) or the counts change
    with n_added growing by `grow`; the second query (threshold t2 or default) must equal a cache-free sketch's answer"""
    c0, c1 = 10, 4
    hh = mk(pattern, c0, c1, c0 + c1 + 1)
    hh.query(10, None if use_none1 else t1)
    if grow:
        hh.lhh_count[0, 0] = c0 + 3
        hh.lhh_count[1, 0] = c1 + 1
        hh.n_added_records[0] = c0 + c1 + 1 + 4
    thr2 = None if use_none2 else t2
    a = hh.query(10, thr2)
    b = _fresh(hh, thr2)
    return sorted(a) == sorted(b) and [c for _, c in a] == [c for _, c in b]


def check_requery_distinct(t1: int, t2: int, grow: bool, n1: bool, n2: bool) -> bool:
    """
    pre: 0 <= t1 <= 2**32 - 1 and 0 <= t2 <= 2**32 - 1
    post: _ == True
    timeout: 600
    """
    return _second_query("distinct", t1, t2, grow, n1, n2)


def check_requery_nul_alias(t1: int, t2: int, grow: bool, n1: bool, n2: bool) -> bool:
    """
    pre: 0 <= t1 <= 2**32 - 1 and 0 <= t2 <= 2**32 - 1
    post: _ == True
    timeout: 600
    """
    return _second_query("nul_alias", t1, t2, grow, n1, n2)


def check_two_sketches_independent(c0: int, c1: int, d0: int, thr: int) -> bool:
    """
    pre: 0 <= c0 < 2**32 and 0 <= c1 < 2**32 and 0 <= d0 < 2**32 and 0 <= thr < 2**32
    post: _ == True
    """
    a = mk("distinct", c0, c1, c0 + c1 + 1)
    b = mk("same", d0, d0, 2 * d0 + 1)
    ra1 = a.query(10, thr)
    rb = b.query(10, thr)
    ra2 = a.query(10, thr)
    want_b = stored("same", d0, d0)
    return ra1 == ra2 and sorted(ra1) == sorted(_fresh(a, thr)) and all(k in want_b for k, _ in rb)


DEFAULT_CFGS = ((0.25, 10), (0.5, 7), (0.3, 11), (0.5, 1))     # (phi, n_added): phi * n_added is 2.5, 3.5, 3.3, 0.5


def _default_candidates(pattern, cfg, c0, c1):
    """what load() does -- generate_candidate_set() with no argument -- followed by query(k, None): the answer is the
    exact list of stored keys whose count reaches the default threshold uint32(phi * n_added) (at least 1), as a
    cache-free copy computes it"""
    phi, nadd = DEFAULT_CFGS[0]
    for i in range(len(DEFAULT_CFGS)):
        if cfg == i:
            phi, nadd = DEFAULT_CFGS[i]
    hh = mk(pattern, c0, c1, nadd, phi)
    hh.generate_candidate_set()
    a = hh.query(10, None)
    f = mk(pattern, c0, c1, nadd, phi)
    b = f.query(10, None)
    thr = int(phi * nadd)
    want = dict((k, c) for k, c in stored(pattern, c0, c1).items() if c >= (thr if thr > 1 else 1))
    return sorted(a) == sorted(b) and dict(a) == want and len(a) == len(want)


def check_default_candidates_distinct(cfg: int, c0: int, c1: int) -> bool:
    """
    pre: 0 <= cfg <= 3 and 0 <= c0 <= 11 and 0 <= c1 <= 11
    post: _ == True
    timeout: 600
    """
    return _default_candidates("distinct", cfg, c0, c1)


def check_default_candidates_empty_key(cfg: int, c0: int, c1: int) -> bool:
    """
    pre: 0 <= cfg <= 3 and 0 <= c0 <= 11 and 0 <= c1 <= 11
    post: _ == True
    timeout: 600
    """
    return _default_candidates("empty_key", cfg, c0, c1)


def check_twin_query_nonempty_reachable(c0: int, c1: int, thr: int) -> bool:
    """
    pre: 0 <= c0 < 2**32 and 0 <= c1 < 2**32 and 0 <= thr < 2**32
    post: _ == True
    """
    return mk("distinct", c0, c1, c0 + c1 + 1).query(3, thr) == []      # false claim: must be refuted

# ---------------------------------------------------------------------------------------------- real-library replays
def _real_query(pattern, c0, c1, k, thr):
    ok = _query_ok(pattern, c0, c1, k, thr)
    hh = mk(pattern, c0, c1, c0 + c1 + 1)
    return ok, f"pattern {pattern} counts ({c0},{c1}) query({k},{thr}) -> {hh.query(k, thr)!r}; stored {stored(pattern, c0, c1)!r}"


def real_query_distinct(c0, c1, k, thr): return _real_query("distinct", c0, c1, k, thr)
def real_query_same(c0, c1, k, thr): return _real_query("same", c0, c1, k, thr)
def real_query_nul_alias(c0, c1, k, thr): return _real_query("nul_alias", c0, c1, k, thr)
def real_query_empty_key(c0, c1, k, thr): return _real_query("empty_key", c0, c1, k, thr)
def real_query_all_nul(c0, c1, k, thr): return _real_query("all_nul", c0, c1, k, thr)
def real_query_empty_and_allnul(c0, c1, k, thr): return _real_query("empty_and_allnul", c0, c1, k, thr)


def _real_requery(pattern, t1, t2, grow, n1, n2):
    ok = _second_query(pattern, t1, t2, grow, n1, n2)
    return ok, f"pattern {pattern}: query({'None' if n1 else t1}); counts (10,4)->({13 if grow else 10},{5 if grow else 4}) n_added+={4 if grow else 0}; query({'None' if n2 else t2}) {'==' if ok else '!='} answer of a cache-free copy"


def real_two_sketches_independent(c0, c1, d0, thr):
    ok = check_two_sketches_independent(c0, c1, d0, thr)
    return ok, "query A, query B, query A again: A's answer " + ("unchanged" if ok else "CHANGED / contains another sketch's keys")


def _real_default(pattern, cfg, c0, c1):
    ok = _default_candidates(pattern, cfg, c0, c1)
    phi, nadd = DEFAULT_CFGS[cfg]
    hh = mk(pattern, c0, c1, nadd, phi)
    hh.generate_candidate_set()
    return ok, f"pattern {pattern} counts ({c0},{c1}) phi={phi} n_added={nadd}: generate_candidate_set() then query(10, None) -> {hh.query(10, None)!r}; stored {stored(pattern, c0, c1)!r}, default threshold uint32({phi * nadd})"


def real_default_candidates_distinct(cfg, c0, c1): return _real_default("distinct", cfg, c0, c1)
def real_default_candidates_empty_key(cfg, c0, c1): return _real_default("empty_key", cfg, c0, c1)


def real_requery_distinct(*a): return _real_requery("distinct", *a)
def real_requery_nul_alias(*a): return _real_requery("nul_alias", *a)
