"""Engine-W harness for C15: merging incompatible sketches is refused and changes nothing.

CrossHair explores the REAL merge() methods of all five classes with every constructor parameter of both operands
symbolic over its documented range (the shimmed arrays are lazy, so width/depth stay symbolic).  The merge kernels are
recorders: a refused merge must not reach them and must leave both operands' attributes and arrays untouched; an
accepted merge must call exactly the right kernel once with (self, other) arrays."""
from checks.wcommon import *  # noqa

W_STUBS = ["numpy / numba / SharedMemory replaced by engine/shim/shims.py (lazy arrays, range-checked fixed-width scalars)", "merge kernels are call recorders; _find_base returns a constant"]
W_ASSUMPTIONS = ["what the merge kernels do with compatible operands is decided by C01/C02/C03/C09", "operands are sketches of this library"]
W_OUTSIDE = ["operands of unrelated types", "log configurations for which the constructor itself raises"]

if MODE == "shim":
    kernels_record_only(CM, ["_merge_linear", "_merge_log16", "_merge_log8"])
    kernels_record_only(HLL, ["_merge"])
    kernels_record_only(HH, ["_merge"])

MERGE_KERNELS = ("_merge_linear", "_merge_log16", "_merge_log8", "_merge")


def conc(x, lo, hi):
    """force a small-range symbolic int to a concrete value on every path (avoids non-linear width*depth*max_key_len)"""
    for v in range(lo, hi + 1):
        if x == v:
            return v
    return hi


def _array_ids(sk):
    return dict((k, id(v)) for k, v in vars(sk).items() if hasattr(v, "shape") and hasattr(v, "dtype") and getattr(v, "shape", ()) != ())


def _try_merge(a, b):
    """returns (raised TypeError?, untouched?, number of merge-kernel calls, first call)"""
    sa, sb = snapshot(a), snapshot(b)
    ia, ib = _array_ids(a), _array_ids(b)
    clear_calls()
    try:
        a.merge(b)
        raised = False
    except TypeError:
        raised = True
    same = snapshot(a) == sa and snapshot(b) == sb
    kc = [c for c in calls() if c[0] in MERGE_KERNELS]
    # a merge never rebinds a sketch's arrays (no aliasing between the two operands afterwards)
    OWN[0] = _array_ids(a) == ia and _array_ids(b) == ib and not (set(_array_ids(a).values()) & set(_array_ids(b).values()))
    return raised, same, len(kc), (kc[0] if kc else None)


OWN = [True]


def _verdict(a, b, compatible, kernel_name):
    raised, same, n, first = _try_merge(a, b)
    if not compatible:
        return raised and same and n == 0
    if MODE == "shim":
        ok = (not raised) and n == 1 and first[0] == kernel_name and OWN[0]
        return ok and _args_ok(a, b, kernel_name, first[1])
    return (not raised) and OWN[0]


def _args_ok(a, b, kernel_name, args):
    """the documented argument list of the merge kernel: self's arrays and parameters first, other's arrays after"""
    if kernel_name == "_merge_linear":
        want = [a.cms, b.cms, a.width, a.depth, a.uint_maxval, a.n_added_records, b.n_added_records]
    elif kernel_name in ("_merge_log16", "_merge_log8"):
        want = [a.cms, b.cms, a.width, a.depth, a.max_count, a.uint_maxval, a.num_reserved, a.base, a.n_added_records, b.n_added_records]
    elif hasattr(a, "registers"):
        want = [a.registers, b.registers, a.m]
    else:
        want = [a.lhh, a.lhh_count, a.key_lens, a.n_added_records, a.width, a.depth, a.uint_maxval, b.lhh, b.lhh_count, b.key_lens, b.n_added_records]
    if len(args) != len(want):
        return False
    for x, w in zip(args, want):
        if hasattr(w, "shape") and hasattr(w, "data"):
            if x is not w:
                return False
        elif not (x == w):
            return False
    return True


def check_linear(w1: int, d1: int, w2: int, d2: int) -> bool:
    """
    pre: 1 <= w1 <= 1000000 and 1 <= d1 <= 64 and 1 <= w2 <= 1000000 and 1 <= d2 <= 64
    post: _ == True
    """
    return _verdict(CM.CountMinLinear(w1, d1), CM.CountMinLinear(w2, d2), w1 == w2 and d1 == d2, "_merge_linear")


def check_log16(w1: int, d1: int, m1: int, r1: int, w2: int, d2: int, m2: int, r2: int) -> bool:
    """
    pre: 1 <= w1 <= 1000000 and 1 <= d1 <= 64 and 1 <= w2 <= 1000000 and 1 <= d2 <= 64
    pre: 70000 <= m1 < 2**64 and 70000 <= m2 < 2**64 and 0 <= r1 < 65535 and 0 <= r2 < 65535
    post: _ == True
    """
    return _verdict(CM.CountMinLog16(w1, d1, m1, r1), CM.CountMinLog16(w2, d2, m2, r2), w1 == w2 and d1 == d2 and m1 == m2 and r1 == r2, "_merge_log16")


def check_log8(w1: int, d1: int, m1: int, r1: int, w2: int, d2: int, m2: int, r2: int) -> bool:
    """
    pre: 1 <= w1 <= 1000000 and 1 <= d1 <= 64 and 1 <= w2 <= 1000000 and 1 <= d2 <= 64
    pre: 300 <= m1 < 2**64 and 300 <= m2 < 2**64 and 0 <= r1 < 255 and 0 <= r2 < 255
    post: _ == True
    """
    return _verdict(CM.CountMinLog8(w1, d1, m1, r1), CM.CountMinLog8(w2, d2, m2, r2), w1 == w2 and d1 == d2 and m1 == m2 and r1 == r2, "_merge_log8")


def _cross(w, d, i, j):
    mk = [lambda: CM.CountMinLinear(w, d), lambda: CM.CountMinLog16(w, d), lambda: CM.CountMinLog8(w, d)]
    return _verdict(mk[i](), mk[j](), False, None)


def check_cross_types(w: int, d: int) -> bool:
    """
    pre: 1 <= w <= 1000000 and 1 <= d <= 64
    post: _ == True
    """
    return all(_cross(w, d, i, j) for i in range(3) for j in range(3) if i != j)


def check_hll(p1: int, s1: int, p2: int, s2: int) -> bool:
    """
    pre: 7 <= p1 <= 16 and 7 <= p2 <= 16 and 0 <= s1 < 2**64 and 0 <= s2 < 2**64
    post: _ == True
    """
    p1, p2 = conc(p1, 7, 16), conc(p2, 7, 16)
    return _verdict(HLL.HyperLogLog(p1, s1), HLL.HyperLogLog(p2, s2), p1 == p2 and s1 == s2, "_merge")


def _hh(w, d, k, phi_kind):
    if phi_kind == 0:
        return HH.HeavyHitters(w, d, k)
    return HH.HeavyHitters(w, d, k, 0.25 if phi_kind == 1 else 0.5)


def check_hh(w1: int, w2: int) -> bool:
    """
    pre: 1 <= w1 <= 100000 and 1 <= w2 <= 100000
    post: _ == True
    """
    ok = True
    for d1, d2 in ((1, 1), (1, 2), (2, 2), (3, 2)):
        for k1, k2 in ((1, 1), (1, 2), (3, 3), (255, 255), (2, 255)):
            for f1, f2 in ((1, 1), (1, 2)):
                ok = ok and _verdict(_hh(w1, d1, k1, f1), _hh(w2, d2, k2, f2), w1 == w2 and d1 == d2 and k1 == k2, "_merge")
    return ok


def check_hh_phi(phi1: float, phi2: float, none1: bool, none2: bool) -> bool:
    """
    pre: 0.0 < phi1 < 1.0 and 0.0 < phi2 < 1.0
    post: _ == True
    """
    ok = True
    for (s1, s2) in (((2, 1, 1), (2, 1, 1)), ((2, 2, 3), (2, 2, 3)), ((2, 1, 1), (3, 1, 1)), ((2, 1, 2), (2, 1, 1))):
        a = HH.HeavyHitters(s1[0], s1[1], s1[2]) if none1 else HH.HeavyHitters(s1[0], s1[1], s1[2], phi1)
        b = HH.HeavyHitters(s2[0], s2[1], s2[2]) if none2 else HH.HeavyHitters(s2[0], s2[1], s2[2], phi2)
        ok = ok and _verdict(a, b, s1 == s2, "_merge")
    return ok


def check_twin_refusal_reachable(w1: int, d1: int, w2: int, d2: int) -> bool:
    """
    pre: 1 <= w1 <= 1000000 and 1 <= d1 <= 64 and 1 <= w2 <= 1000000 and 1 <= d2 <= 64
    post: _ == True
    """
    raised, same, n, first = _try_merge(CM.CountMinLinear(w1, d1), CM.CountMinLinear(w2, d2))
    return not raised      # false claim: "merge never refuses" -- must be refuted

# ---------------------------------------------------------------------------------------------- real-library replays
def _real_pair(mk_a, mk_b, compatible, fill):
    last = (True, "")
    for (fa, fb) in ((True, True), (False, True), (True, False)):
        try:
            a, b = mk_a(), mk_b()
        except (ValueError, OverflowError, MemoryError) as e:
            return True, f"constructor refused the configuration ({type(e).__name__}); not a merge question"
        if fa:
            fill(a)
        if fb:
            fill(b)
        ok = _verdict(a, b, compatible, None)
        det = f"compatible={compatible} (destination {'non-empty' if fa else 'EMPTY'}, argument {'non-empty' if fb else 'EMPTY'}): merge {'behaved as documented' if ok else 'behaved wrongly (raised / rebound arrays / changed a refused operand)'}"
        if ok and compatible:
            # the two sketches stay independent objects: a later add to one does not show in the other
            sb = snapshot(b)
            fill(a)
            if snapshot(b) != sb:
                ok, det = False, f"after a.merge(b) (destination {'non-empty' if fa else 'EMPTY'}) an add to a changed b: the sketches share storage"
        last = (ok, det)
        if not ok:
            return last
    if compatible:
        # an argument that holds records but no keys (what a parallel_add worker ends up with when its records were empty):
        # the merged bookkeeping must still be the sum
        try:
            a, b = mk_a(), mk_b()
            if hasattr(a, "n_added_records"):
                fill(a)
                b.n_added_records[1] = 5
                before = int(a.n_records())
                a.merge(b)
                if int(a.n_records()) != before + 5:
                    return False, f"argument with n_added()==0 but n_records()==5: merged n_records()={int(a.n_records())}, expected {before + 5}"
        except (ValueError, OverflowError, MemoryError):
            pass
    return last


def _small(w, d):
    return max(1, min(w, 4096)), max(1, min(d, 16))


def _fill_cm(s):
    s.add(b"k", 3)
    s.n_added_records[1] = 7


def _shrink(w1, d1, w2, d2):
    """a small configuration with the same truth values of the relations a guard could plausibly test:
    w1==w2, d1==d2, w1*d1==w2*d2, w1+d1==w2+d2, w1==d2, d1==w2"""
    rel = lambda a, b, c, d: (a == c, b == d, a * b == c * d, a + b == c + d, a == d, b == c)
    want = rel(w1, d1, w2, d2)
    if max(w1, w2) <= 4096:
        return w1, d1, w2, d2
    for a in range(1, 400):
        for c in range(1, 400):
            if rel(a, d1, c, d2) == want:
                return a, d1, c, d2
    return min(w1, 4096), d1, min(w2, 4096), d2


def real_linear(w1, d1, w2, d2):
    a1, b1, a2, b2 = _shrink(w1, d1, w2, d2)
    return _real_pair(lambda: CM.CountMinLinear(a1, b1), lambda: CM.CountMinLinear(a2, b2), w1 == w2 and d1 == d2, _fill_cm)


def _real_log(cls, w1, d1, m1, r1, w2, d2, m2, r2):
    a1, b1, a2, b2 = _shrink(w1, d1, w2, d2)
    compatible = w1 == w2 and d1 == d2 and m1 == m2 and r1 == r2
    tries = [(m1, r1, m2, r2)]
    if m1 != m2:
        tries += [(2 ** 40, r1, 2 ** 40 + 1, r2), (2 ** 50 + 1, r1, 2 ** 50, r2), (2 ** 40, 1023 if cls is CM.CountMinLog16 else 15, 2 ** 40 + 1, 1023 if cls is CM.CountMinLog16 else 15)]
    if r1 != r2:
        tries += [(m1, 1023, m2, 1022)] if cls is CM.CountMinLog16 else [(m1, 15, m2, 14)]
    last = (True, "no configuration accepted by the constructors")
    for (x1, y1, x2, y2) in tries:
        ok, det = _real_pair(lambda: cls(a1, b1, x1, y1), lambda: cls(a2, b2, x2, y2), compatible and (x1, y1) == (x2, y2), _fill_cm)
        last = (ok, f"max_count/num_reserved ({x1},{y1}) vs ({x2},{y2}): {det}")
        if not ok:
            return last
    return last


def real_log16(w1, d1, m1, r1, w2, d2, m2, r2):
    return _real_log(CM.CountMinLog16, w1, d1, m1, r1, w2, d2, m2, r2)


def real_log8(w1, d1, m1, r1, w2, d2, m2, r2):
    return _real_log(CM.CountMinLog8, w1, d1, m1, r1, w2, d2, m2, r2)


def real_cross_types(w, d):
    w, d = _small(w, d)
    mk = [lambda: CM.CountMinLinear(w, d), lambda: CM.CountMinLog16(w, d), lambda: CM.CountMinLog8(w, d)]
    for i in range(3):
        for j in range(3):
            if i != j:
                ok, det = _real_pair(mk[i], mk[j], False, _fill_cm)
                if not ok:
                    return False, f"counter types {i}->{j}: {det}"
    return True, "all six ordered counter-type pairs refused and untouched"


def real_hll(p1, s1, p2, s2):
    tries = [(s1, s2)]
    if s1 != s2:
        tries += [(2 ** 53, 2 ** 53 + 1), (2 ** 63, 2 ** 63 + 1), (2 ** 64 - 2, 2 ** 64 - 1), (2 ** 32, 0), (5, 5 + 2 ** 32)]
    last = (True, "")
    for (x, y) in tries:
        last = _real_pair(lambda: HLL.HyperLogLog(p1, x), lambda: HLL.HyperLogLog(p2, y), p1 == p2 and x == y, lambda s: s.add(b"k"))
        if not last[0]:
            return False, f"seeds {x} vs {y}: {last[1]}"
    return last


def real_hh(w1, w2):
    a1, a2 = max(1, min(w1, 4096)), max(1, min(w2, 4096))
    if w1 != w2 and a1 == a2:
        a2 = a1 + 1
    for d1, d2 in ((1, 1), (1, 2), (2, 2), (3, 2)):
        for k1, k2 in ((1, 1), (1, 2), (3, 3), (255, 255), (2, 255)):
            for f1, f2 in ((1, 1), (1, 2)):
                ok, det = _real_pair(lambda: _hh(a1, d1, k1, f1), lambda: _hh(a2, d2, k2, f2), w1 == w2 and d1 == d2 and k1 == k2, lambda s: s.add(b"k", 2))
                if not ok:
                    return False, f"HeavyHitters({a1},{d1},{k1},phi#{f1}) vs ({a2},{d2},{k2},phi#{f2}): {det}"
    return True, "all combinations behaved as documented"


def real_hh_phi(phi1, phi2, none1, none2):
    for (s1, s2) in (((2, 1, 1), (2, 1, 1)), ((2, 2, 3), (2, 2, 3)), ((2, 1, 1), (3, 1, 1)), ((2, 1, 2), (2, 1, 1))):
        mk_a = (lambda s1=s1: HH.HeavyHitters(*s1)) if none1 else (lambda s1=s1: HH.HeavyHitters(s1[0], s1[1], s1[2], float(phi1)))
        mk_b = (lambda s2=s2: HH.HeavyHitters(*s2)) if none2 else (lambda s2=s2: HH.HeavyHitters(s2[0], s2[1], s2[2], float(phi2)))
        ok, det = _real_pair(mk_a, mk_b, s1 == s2, lambda s: s.add(b"k", 2))
        if not ok:
            return False, f"shapes {s1} vs {s2}, phi {'None' if none1 else phi1} vs {'None' if none2 else phi2}: {det}"
    return True, "all combinations behaved as documented"
