"""Engine-W harness for C16: shared-memory and attached sketches behave exactly like in-memory ones.

Decidable part (layout and ownership): with the SharedMemory stand-in recording every (start, stop, dtype) view, the
REAL __init__(shared_memory=True), attach_existing_shm and helpers.attach_shared_memory run under CrossHair with a
symbolic width (depth and max_key_len enumerated, so every size is linear in the one symbolic quantity): the owner's and
the attached view's byte ranges and dtypes are identical, tile the block without overlap, end at its size, the
bookkeeping view has exactly 2 entries, a write through one is seen through the other, a sketch rebuilt from
owner.args has the owner's parameters, and __del__ of the owner closes+unlinks while a view only closes."""
from checks.wcommon import *  # noqa

W_STUBS = ["multiprocessing.shared_memory.SharedMemory -> recording stand-in: views of one block with identical (start, stop, dtype) share storage", "time.sleep / gc.collect are no-ops", "_find_base -> constant"]
W_ASSUMPTIONS = ["given identical views of one buffer, behavioural equality with an in-memory sketch is inherited from the kernels being functions of the arrays (engine K checks)"]
W_OUTSIDE = ["the operating system's shared memory, /dev/shm listing, cross-process visibility, timing inside __del__", "unaligned numpy views are accepted by Numba (observed, not decided here)"]

if MODE == "shim":
    from engine.shim import shims as _sh


def _views(events, shm_obj_id=None):
    return [(e[2], e[3], e[4]) for e in events if e[0] == "view"]


def _layout_ok(make, kind, n_tables):
    """make(shared_memory) -> sketch; kind: type string for helpers.attach_shared_memory"""
    del SHM_EVENTS[:]
    owner = make(True)
    ev_owner = list(SHM_EVENTS)
    size = [e[2] for e in ev_owner if e[0] == "create"]
    vo = _views(ev_owner)
    ok = len(size) == 1 and len(vo) == n_tables
    # tiles the block: sorted by start, contiguous, ends at size
    pos = 0
    for (a, b, dt) in vo:
        ok = ok and a == pos and b >= a
        pos = b
    ok = ok and pos == size[0]
    ok = ok and vo[-1][2] == "uint64" and vo[-1][1] - vo[-1][0] == 16 and owner.n_added_records.shape[0] == 2 if n_tables > 1 else ok
    # attach a second sketch built from the owner's args
    del SHM_EVENTS[:]
    view = HELPERS.attach_shared_memory(kind, owner.args, owner.shm.name)
    vv = _views(SHM_EVENTS)
    ok = ok and vv == vo and type(view) is type(owner)
    # and through the method directly on a locally constructed twin
    twin = make(False)
    del SHM_EVENTS[:]
    twin.attach_existing_shm(owner.shm.name)
    ok = ok and _views(SHM_EVENTS) == vo
    return ok, owner, view, twin


def _params_equal(a, b, names):
    return all(getattr(a, n) == getattr(b, n) for n in names)


def _shared(owner, view, arr, idx, val):
    getattr(owner, arr)[idx] = val
    return getattr(view, arr)[idx] == val and tuple(getattr(owner, arr).shape) == tuple(getattr(view, arr).shape)


def _ownership(owner, view):
    """view dropped first: only close on its own handle; then the owner: close + unlink"""
    del SHM_EVENTS[:]
    name = owner.shm.name
    view.__del__()
    e1 = [e[0] for e in SHM_EVENTS if e[0] in ("close", "unlink")]
    alive = not _sh.SHM_REGISTRY[name]["unlinked"]
    view.existing_shm = None
    del SHM_EVENTS[:]
    owner.__del__()
    e2 = [e[0] for e in SHM_EVENTS if e[0] in ("close", "unlink")]
    gone = _sh.SHM_REGISTRY[name]["unlinked"]
    owner.shm = None
    return e1 == ["close"] and alive and e2 == ["close", "unlink"] and gone


def check_linear(width: int) -> bool:
    """
    pre: 1 <= width <= 100000
    post: _ == True
    """
    ok = True
    for depth in (1, 3, 8):
        o, owner, view, twin = _layout_ok(lambda shm: CM.CountMinLinear(width, depth, shm), "cms", 2)
        ok = ok and o and _params_equal(owner, view, ("width", "depth", "uint_maxval")) and _shared(owner, view, "cms", (depth - 1, 0), 7) and _shared(view, twin, "n_added_records", 1, 9) and _ownership(owner, view)
    return ok


def check_log16(width: int, mc: int, res: int) -> bool:
    """
    pre: 1 <= width <= 100000 and 70000 <= mc < 2**64 and 0 <= res < 65535
    post: _ == True
    """
    ok = True
    for depth in (1, 3):
        o, owner, view, twin = _layout_ok(lambda shm: CM.CountMinLog16(width, depth, mc, res, shm), "cms", 2)
        ok = ok and o and _params_equal(owner, view, ("width", "depth", "uint_maxval", "max_count", "num_reserved", "base")) and _shared(owner, view, "cms", (depth - 1, 0), 7) and _shared(view, twin, "n_added_records", 0, 9) and _ownership(owner, view)
    return ok


def check_log8(width: int, mc: int, res: int) -> bool:
    """
    pre: 1 <= width <= 100000 and 300 <= mc < 2**64 and 0 <= res < 255
    post: _ == True
    """
    ok = True
    for depth in (1, 3, 5):
        o, owner, view, twin = _layout_ok(lambda shm: CM.CountMinLog8(width, depth, mc, res, shm), "cms", 2)
        ok = ok and o and _params_equal(owner, view, ("width", "depth", "uint_maxval", "max_count", "num_reserved", "base")) and _shared(owner, view, "cms", (depth - 1, 0), 7) and _shared(view, twin, "n_added_records", 0, 9) and _ownership(owner, view)
    return ok


def check_hll(p: int, seed: int) -> bool:
    """
    pre: 7 <= p <= 9 and 0 <= seed < 2**64
    post: _ == True
    """
    ok = True
    for pp in (7, 8, 9):
        if p == pp:
            o, owner, view, twin = _layout_ok(lambda shm: HLL.HyperLogLog(pp, seed, shm), "hll", 1)
            ok = ok and o and _params_equal(owner, view, ("p", "seed", "m")) and _shared(owner, view, "registers", (1 << pp) - 1, 7) and _ownership(owner, view)
    return ok


def check_hh(width: int) -> bool:
    """
    pre: 1 <= width <= 100000
    post: _ == True
    """
    ok = True
    for (depth, mkl) in ((1, 1), (2, 3), (3, 4), (1, 255)):
        o, owner, view, twin = _layout_ok(lambda shm: HH.HeavyHitters(width, depth, mkl, 0.25, shm), "hh", 4)
        ok = ok and o and _params_equal(owner, view, ("width", "depth", "max_key_len", "phi")) and _shared(owner, view, "lhh", (depth - 1, 0, mkl - 1), 7) and _shared(owner, view, "lhh_count", (depth - 1, 0), 8)
        ok = ok and _shared(view, twin, "key_lens", (0, 0), 1) and _shared(view, twin, "n_added_records", 1, 9) and _ownership(owner, view)
    return ok


def check_hh_query_sees_other_view(cnt: int, thr: int) -> bool:
    """
    pre: 1 <= cnt < 2**32 and 0 <= thr < 2**32
    post: _ == True
    """
    kernel_impl(HH, "fasthash64", lambda key, seed: np.uint64(0), record=False)
    owner = HH.HeavyHitters(1, 1, 2, 0.5, True)
    view = HELPERS.attach_shared_memory("hh", owner.args, owner.shm.name)
    first = owner.query(10, thr)
    # what one add through the other view leaves in the shared block (the kernel's effect is decided by C03/C05)
    view.lhh[0, 0, 0] = 97
    view.key_lens[0, 0] = 1
    view.lhh_count[0, 0] = cnt
    view.n_added_records[0] = view.n_added_records[0] + cnt
    second = owner.query(10, thr)
    owner.shm = None
    return first == [] and second == ([(b"a", cnt)] if cnt >= thr else [])


def check_factory(kind: int, none_nr: bool, nr: int, mc: int) -> bool:
    """
    pre: 0 <= kind <= 2 and 0 <= nr < 255 and 70000 <= mc < 2**64
    post: _ == True
    """
    for k in range(3):
        if kind == k:
            t = ("linear", "log16", "log8")[k]
            sk = CM.CountMin(t, 3, 2, mc, None if none_nr else nr)
            cls = (CM.CountMinLinear, CM.CountMinLog16, CM.CountMinLog8)[k]
            ok = type(sk) is cls and ival(sk.width) == 3 and ival(sk.depth) == 2
            if k > 0:
                ok = ok and sk.max_count == mc and ival(sk.num_reserved) == ((1023 if k == 1 else 15) if none_nr else nr)
            # and a sketch rebuilt from .args is the same configuration
            tw = CM.CountMin(**sk.args)
            ok = ok and type(tw) is cls and (k == 0 or (tw.max_count == sk.max_count and tw.num_reserved == sk.num_reserved))
            return ok
    return True


def check_dispatch(kind: int) -> bool:
    """
    pre: 0 <= kind <= 3
    post: _ == True
    """
    types_ = ("cms", "hh", "hll", "nope")
    args = ({"cms_type": "log8", "width": 3, "depth": 2}, {"width": 2, "depth": 1, "max_key_len": 2, "phi": None}, {"p": 7, "seed": 3}, {})
    want = (CM.CountMinLog8, HH.HeavyHitters, HLL.HyperLogLog, None)
    for i in range(4):
        if kind == i:
            if i == 3:
                try:
                    HELPERS.attach_shared_memory("nope", {}, "x")
                    return False
                except TypeError:
                    return True
            owner = CM.CountMin(**args[0], shared_memory=True) if i == 0 else (HH.HeavyHitters(**args[1], shared_memory=True) if i == 1 else HLL.HyperLogLog(**args[2], shared_memory=True))
            v = HELPERS.attach_shared_memory(types_[i], owner.args, owner.shm.name)
            ok = type(v) is want[i] and type(v) is type(owner)
            owner.shm = None
            return ok
    return True


def check_twin_layout_reachable(width: int) -> bool:
    """
    pre: 1 <= width <= 100000
    post: _ == True
    """
    del SHM_EVENTS[:]
    owner = CM.CountMinLog8(width, 3, 300, 0, True)
    v = _views(SHM_EVENTS)
    owner.shm = None
    return v[1][0] != 3 * width      # false claim: the bookkeeping view does NOT start right after the table -- must be refuted

# ---------------------------------------------------------------------------------------------- real-library replays
def _real_behaviour(make, kind, ops):
    """owner + attached view + in-memory reference under the same operations: all must agree; dropping the view keeps
    the owner intact; dropping the owner removes the segment"""
    import gc as _gc
    from multiprocessing.shared_memory import SharedMemory as _SM
    owner, ref = make(True), make(False)
    view = HELPERS.attach_shared_memory(kind, owner.args, owner.shm.name)
    name = owner.shm.name
    msgs = []
    for i, (key, v) in enumerate(ops):
        tgt = owner if i % 2 == 0 else view
        if kind == "hll":
            tgt.add(key)
            ref.add(key)
        else:
            tgt.add(key, v)
            ref.add(key, v)
    for nm in ("cms", "n_added_records", "lhh", "lhh_count", "key_lens", "registers"):
        if hasattr(ref, nm):
            a, b, c = np.array(getattr(owner, nm)), np.array(getattr(view, nm)), np.array(getattr(ref, nm))
            if not (a.shape == b.shape == c.shape and (a == b).all() and (a == c).all()):
                msgs.append(f"{nm}: owner / attached view / in-memory sketch disagree after the same operations")
    for n in [x for x in ("width", "depth", "max_count", "num_reserved", "base", "p", "seed", "max_key_len", "phi") if hasattr(owner, x)]:
        if getattr(owner, n) != getattr(view, n):
            msgs.append(f"attached view has {n}={getattr(view, n)} but the owner has {getattr(owner, n)}")
    snap = [np.array(getattr(owner, nm)).copy() for nm in ("cms", "registers", "lhh_count") if hasattr(owner, nm)]
    del view
    _gc.collect()
    now = [np.array(getattr(owner, nm)) for nm in ("cms", "registers", "lhh_count") if hasattr(owner, nm)]
    if not all((x == y).all() for x, y in zip(snap, now)):
        msgs.append("dropping the attached view changed the owner's contents")
    del owner
    _gc.collect()
    try:
        s = _SM(name=name)
        s.close()
        msgs.append("segment still exists after the owner was dropped")
    except FileNotFoundError:
        pass
    return (not msgs), "; ".join(msgs) or "owner, view and in-memory sketch agree; ownership as documented"


OPS = [(b"a", 3), (b"bb", 1), (b"a", 2), (b"\x00", 4), (b"ccc", 1)]


def _w(width):
    return max(1, min(width, 2048))


def real_linear(width):
    for depth in (1, 3, 8):
        ok, det = _real_behaviour(lambda shm: CM.CountMinLinear(_w(width), depth, shm), "cms", OPS)
        if not ok:
            return False, f"CountMinLinear({_w(width)},{depth}): {det}"
    return True, "ok"


def real_log16(width, mc, res):
    for depth in (1, 3):
        try:
            ok, det = _real_behaviour(lambda shm: CM.CountMinLog16(_w(width), depth, mc, res, shm), "cms", OPS)
        except ValueError as e:
            return True, f"constructor refused: {e}"
        if not ok:
            return False, f"CountMinLog16({_w(width)},{depth},{mc},{res}): {det}"
    return True, "ok"


def real_log8(width, mc, res):
    for w in sorted(set([_w(width), 5, 3])):
        for depth in (1, 3, 5):
            try:
                ok, det = _real_behaviour(lambda shm: CM.CountMinLog8(w, depth, mc, res, shm), "cms", OPS)
            except ValueError as e:
                return True, f"constructor refused: {e}"
            if not ok:
                return False, f"CountMinLog8({w},{depth},{mc},{res}): {det}"
    return True, "ok"


def real_hll(p, seed):
    for s in sorted(set([seed, seed | (1 << 40), (1 << 64) - 1])):
        ok, det = _real_behaviour(lambda shm: HLL.HyperLogLog(p, s, shm), "hll", OPS)
        if not ok:
            return False, f"HyperLogLog({p},{s}): {det}"
    return True, "ok"


def real_hh(width):
    for (depth, mkl) in ((1, 1), (2, 3), (3, 4), (1, 255)):
        ok, det = _real_behaviour(lambda shm: HH.HeavyHitters(_w(width), depth, mkl, 0.25, shm), "hh", OPS)
        if not ok:
            return False, f"HeavyHitters({_w(width)},{depth},{mkl}): {det}"
    return True, "ok"


def real_hh_query_sees_other_view(cnt, thr):
    import gc as _gc
    owner = HH.HeavyHitters(1, 1, 2, 0.5, True)
    view = HELPERS.attach_shared_memory("hh", owner.args, owner.shm.name)
    first = owner.query(10, thr)
    view.add(b"a", cnt)
    second = owner.query(10, thr)
    want = [(b"a", cnt)] if cnt >= thr else []
    ok = first == [] and [(bytes(k), int(c)) for k, c in second] == want
    del view
    _gc.collect()
    return ok, f"owner.query() before {first!r}; after view.add(b'a', {cnt}) the owner answers {second!r}, expected {want!r}"


def real_factory(kind, none_nr, nr, mc):
    t = ("linear", "log16", "log8")[kind]
    try:
        sk = CM.CountMin(t, 3, 2, mc, None if none_nr else nr)
    except ValueError:
        return True, "constructor refused the configuration"
    cls = (CM.CountMinLinear, CM.CountMinLog16, CM.CountMinLog8)[kind]
    ok = type(sk) is cls
    if kind > 0:
        ok = ok and int(sk.max_count) == mc and int(sk.num_reserved) == ((1023 if kind == 1 else 15) if none_nr else nr)
        tw = CM.CountMin(**sk.args)
        ok = ok and int(tw.num_reserved) == int(sk.num_reserved) and int(tw.max_count) == int(sk.max_count)
    return ok, f"CountMin({t!r}, 3, 2, {mc}, {None if none_nr else nr}) -> {type(sk).__name__} num_reserved={getattr(sk, 'num_reserved', None)}"


def real_dispatch(kind):
    return True, "dispatch is decided under the shim only"
