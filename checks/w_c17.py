"""Engine-W harness for the class-glue part of C17: HyperLogLog.__init__ selects row p-7 of the three shipped tables and
alpha = 0.7213 / (1 + 1.079/m); query() evaluates the estimator on the CURRENT registers at every call."""
from checks.wcommon import *  # noqa

W_STUBS = ["hll_constants -> small distinguishable tables (row i of every table identifies p = i + 7)", "_query / _merge / _add kernels are recorders"]
W_ASSUMPTIONS = ["what _query computes from its arguments is decided by the engine-K part of C17"]
W_OUTSIDE = ["the numeric content of the shipped tables (concrete data facts are reported by the K part)"]

if MODE == "shim":
    QN = [0]

    def _q(*a):
        QN[0] += 1
        return 100.0 + QN[0]
    kernel_impl(HLL, "_query", _q, record=True)
    kernels_record_only(HLL, ["_merge", "_add"])


def check_init(p: int, seed: int) -> bool:
    """
    pre: 7 <= p <= 16 and 0 <= seed < 2**64
    post: _ == True
    """
    for pp in range(7, 17):
        if p == pp:
            sk = HLL.HyperLogLog(pp, seed)
            import sketchnu.hll_constants as K
            i = pp - 7
            ok = sk.threshold == K.sub_algorithm_threshold[i] and sk.raw_estimate.tolist() == K.raw_estimate[i, :].tolist() and sk.bias_data.tolist() == K.bias_data[i, :].tolist()
            ok = ok and ival(sk.m) == (1 << pp) and ival(sk.p) == pp and sk.seed == seed
            ok = ok and abs(float(sk.alpha) - 0.7213 / (1.0 + 1.079 / (1 << pp))) < 1e-15
            return ok and tuple(sk.registers.shape) == (1 << pp,)
    return True


def check_query_current(how: int) -> bool:
    """
    pre: 0 <= how <= 2
    post: _ == True
    """
    sk, other = HLL.HyperLogLog(7, 3), HLL.HyperLogLog(7, 3)
    clear_calls()
    q1 = sk.query()
    for h in range(3):
        if how == h:
            if h == 0:
                sk.merge(other)
            elif h == 1:
                sk.registers[5] = 9
            else:
                sk.add(b"x")
    q2 = sk.query()
    qc = calls("_query")
    return len(qc) == 2 and q1 != q2 and all(c[1][0] is sk.registers and c[1][2] == sk.threshold for c in qc)


def real_init(p, seed):
    sk = HLL.HyperLogLog(p, seed)
    from sketchnu import hll_constants as K
    i = p - 7
    ok = float(sk.threshold) == float(K.sub_algorithm_threshold[i]) and (np.array(sk.raw_estimate) == K.raw_estimate[i, :]).all() and (np.array(sk.bias_data) == K.bias_data[i, :]).all()
    ok = ok and int(sk.m) == (1 << p) and int(sk.seed) == seed and abs(float(sk.alpha) - 0.7213 / (1.0 + 1.079 / (1 << p))) < 1e-15
    return bool(ok), f"p={p}: threshold {float(sk.threshold)}, alpha {float(sk.alpha)}"


def real_query_current(how):
    sk, other = HLL.HyperLogLog(7, 3), HLL.HyperLogLog(7, 3)
    for i in range(300):
        other.add(b"o%d" % i)
    sk.add(b"a")
    sk.query()
    if how == 0:
        sk.merge(other)
    elif how == 1:
        sk.registers[:] = other.registers
    else:
        for i in range(300):
            sk.add(b"o%d" % i)
    got = float(sk.query())
    fresh = HLL.HyperLogLog(7, 3)
    fresh.registers[:] = sk.registers
    want = float(fresh.query())
    return got == want, f"query() after a change ({['merge', 'register assignment', 'adds'][how]}) = {got}; a fresh sketch with the same registers gives {want}"
