"""Prelude shared by the engine-W harness modules (checks/w_*.py).

W_MODE=shim (default; the mode CrossHair analyses): the REAL sketchnu sources from /repo are imported in a process whose
numpy / numba / multiprocessing.shared_memory are the pure-Python stand-ins of engine/shim/shims.py.
W_MODE=real: the same harness module is imported against the real library, for replaying counterexamples."""
import os
import sys
import warnings

warnings.filterwarnings("ignore")
HERE = os.path.dirname(os.path.dirname(os.path.abspath(__file__)))
if HERE not in sys.path:
    sys.path.insert(0, HERE)
MODE = os.environ.get("W_MODE", "shim")
REPO = os.environ.get("VERIF_REPO", "/repo")

if MODE == "shim":
    from engine.shim import shims
    _m = shims.load_sketchnu(REPO)
    CM, HH, HLL, HASHES = _m["countmin"], _m["heavyhitters"], _m["hyperloglog"], _m["hashes"]
    np = shims.numpy
    HELPERS = shims.load_helpers(REPO)
    CALLS = shims.CALLS
    SHM_EVENTS = shims.SHM_EVENTS

    def kernels_record_only(mod, names, ret=None):
        """turn jitted kernels into pure recorders (their behaviour is decided by the engine-K checks)"""
        for n in names:
            k = getattr(mod, n)
            k.impl = (lambda *a, _r=ret: _r)
            k.record = True

    def kernel_impl(mod, name, fn, record=True):
        k = getattr(mod, name)
        k.impl = fn
        k.record = record

    def calls(name=None):
        return [c for c in CALLS if name is None or c[0] == name]

    def clear_calls():
        del CALLS[:]

    # the log base is a function of (max_count, num_reserved, uint_max) only; its value is irrelevant to the glue
    kernel_impl(CM, "_find_base", lambda mc, nr, um: 1.0005, record=False)
else:
    if REPO not in sys.path:
        sys.path.insert(1, REPO)
    import numpy as np
    from sketchnu import countmin as CM, heavyhitters as HH, hyperloglog as HLL, hashes as HASHES, helpers as HELPERS
    CALLS = []
    SHM_EVENTS = []

    def kernels_record_only(mod, names, ret=None):
        pass

    def kernel_impl(mod, name, fn, record=True):
        pass

    def calls(name=None):
        return []

    def clear_calls():
        pass


def is_concrete_int(x):
    """CrossHair's symbolic ints answer type(x) is int with True: look underneath the tracer"""
    try:
        from crosshair.tracers import NoTracing, is_tracing
    except Exception:
        return type(x) is int
    if not is_tracing():
        return type(x) is int
    with NoTracing():
        return type(x) is int


def ival(x):
    """plain int of a numpy / shim scalar (no realisation of symbolic ints in shim mode)"""
    if MODE == "shim":
        return shims._ai(x)
    return int(x)


def snap_array(a):
    if MODE == "shim":
        d = a.data
        if all(is_concrete_int(x) for x in a.shape):
            n = 1
            for x in a.shape:
                n = n * x
            if n <= 64:
                return ("arr", tuple(a.shape), tuple(a.tolist()))
        if hasattr(d, "snapshot"):
            return ("arr", tuple(a.shape), dict((k, v) for k, v in d.snapshot().items() if not (is_concrete_int(v) and v == 0)))
        return ("arr", tuple(a.shape), list(d))
    return ("arr", tuple(a.shape), a.tobytes())


def snapshot(sk):
    """public state of a sketch: every array attribute and every scalar parameter"""
    out = {}
    for k, v in vars(sk).items():
        if k in ("shm", "existing_shm", "rng", "candidate_set"):
            continue
        if hasattr(v, "shape") and hasattr(v, "dtype") and not isinstance(v, (int, float)) and getattr(v, "shape", ()) != ():
            out[k] = snap_array(v)
        elif isinstance(v, dict):
            out[k] = dict(v)
        else:
            out[k] = ival(v) if not isinstance(v, (float, str, bool, type(None))) and hasattr(v, "__int__") and not hasattr(v, "is_integer") else v
    return out
