"""Count-min harness pieces for engine K: symbolic sketches, one-step runs of the real kernels, replays."""
import struct
import time
import z3
from engine import common
from engine.kit import (KeyBook, SelKey, mk_arr, cells, select_col, umin, umax, cm_est, zx, ev, find_keys, MAX32)
from engine.nbsym import (Executor, State, SBytes, Val, Arr, Store, types, cast, mk_int, Unsupported, FPS)

_MOD = {}


def cm():
    if "cm" not in _MOD:
        from sketchnu import countmin
        _MOD["cm"] = countmin
    return _MOD["cm"]


def hashes():
    if "h" not in _MOD:
        from sketchnu import hashes as h
        _MOD["h"] = h
    return _MOD["h"]


U = {32: types.uint32, 16: types.uint16, 8: types.uint8}


class SymCM:
    """Symbolic count-min sketch state (arrays live in a nbsym State heap)."""

    def __init__(self, st, name, bits, width, depth, zero=False):
        self.bits, self.width, self.depth = bits, width, depth
        self.cms = mk_arr(st, f"{name}_cms", U[bits], (depth, width), zero)
        self.nar = mk_arr(st, f"{name}_nar", types.uint64, (2,), zero)
        self.bk = mk_arr(st, f"{name}_bk", types.uint64, (depth,), zero)

    def table(self, st):
        return cells(st, self.cms)

    def cell(self, st, r, c):
        return cells(st, self.cms)[r * self.width + c]


def run1(ex, disp, st, args):
    outs = ex.call_dispatcher(disp, st, args)
    outs = [(s, v) for (s, v) in outs if not (isinstance(v, tuple) and v and v[0] == "raise")]
    if len(outs) != 1:
        raise Unsupported(f"{disp.py_func.__name__}: {len(outs)} non-raising outcomes (expected one merged outcome)")
    return outs[0]


def add_linear(ex, st, sk, key, value32):
    C = cm()
    W = mk_int(types.uint64, sk.width)
    D = mk_int(types.uint64, sk.depth)
    return run1(ex, C._add_linear, st, [sk.cms, sk.nar, sk.bk, W, D, mk_int(types.uint32, MAX32), key, Val(types.uint32, value32)])[0]


def query_linear(ex, st, sk, key):
    C = cm()
    W = mk_int(types.uint64, sk.width)
    D = mk_int(types.uint64, sk.depth)
    s, v = run1(ex, C._query_linear, st, [sk.cms, sk.bk, W, D, mk_int(types.uint32, MAX32), key])
    return s, v


def merge_linear(ex, st, a, b):
    C = cm()
    W = mk_int(types.uint64, a.width)
    D = mk_int(types.uint64, a.depth)
    return run1(ex, C._merge_linear, st, [a.cms, b.cms, W, D, mk_int(types.uint32, MAX32), a.nar, b.nar])[0]


def keycols(book, kid, width, depth):
    return [book.colterm(kid, r, width) for r in range(depth)]


def safety_goals(st):
    """side conditions collected by the interpreter: any of them satisfiable = unsafe access possible"""
    return [(k, c) for (k, c) in st.oblig]


def first_failure(assume, clauses, timeout_ms, stats, label):
    """clauses: list of (name, prop).  Returns (None, None) if all unsat; ('unknown', name) or ('sat', (name, model))."""
    for name, prop in clauses:
        r, m = common.z3check(list(assume) + [z3.Not(prop)], timeout_ms, stats, label=f"{label}: {name}")
        if r == "sat":
            return "sat", (name, m)
        if r != "unsat":
            return "unknown", name
    return None, None


def merge_estimate_goals_decomposed(assume, pre, post, a, b, colk, sat_add, timeout_ms, stats, label):
    """Estimate-level corollaries of a linear merge for deep shapes, by decomposition (each step a solver query):
      (row)  for every row r, with the key's symbolic column c_r: R[r][c_r] == sat_add(A[r][c_r], B[r][c_r]);
      (glue) for fresh per-row values with rr_r == sat_add(ra_r, rb_r): min(rr) >= min(ra), >= min(rb),
             >= sat_add(min ra, min rb), and a MAX32 minimum on either side forces min(rr) == MAX32.
    The estimates are min over rows of exactly those row values (kit.cm_est), so the corollaries follow by substitution.
    Returns (None, None) | ('unknown', name) | ('sat', (name, model)) like first_failure; only a (row) failure yields a model."""
    from .kit import select_col, umin
    depth, width = a.cms.shape
    A, B, R = pre[a.cms.sid], pre[b.cms.sid], post.heap[a.cms.sid]
    assume = list(assume)
    for r in range(depth):
        sl = slice(r * width, (r + 1) * width)
        va, vb, vr = select_col(A[sl], colk[r]), select_col(B[sl], colk[r]), select_col(R[sl], colk[r])
        res, m = common.z3check(assume + [vr != sat_add(va, vb)], timeout_ms, stats, label=f"{label}: row {r} value of the key == sat_add of the operands' row values")
        if res == "sat":
            return "sat", (f"row {r}: merged value of the key's cell != min(a + b, 2^32-1)", m)
        if res != "unsat":
            return "unknown", f"row {r} lemma"
    # glue lemma over the integers (= the unsigned values of the 32-bit cells; sat_add(x, y) is min(x + y, 2^32-1) there):
    # bit-blasting the depth-8 statement does not finish, linear integer arithmetic decides it at once
    ra = [z3.Int(f"g_ra{r}") for r in range(depth)]
    rb = [z3.Int(f"g_rb{r}") for r in range(depth)]
    rr = [z3.Int(f"g_rr{r}") for r in range(depth)]
    imin = lambda x, y: z3.If(x <= y, x, y)
    isat = lambda x, y: imin(x + y, z3.IntVal(MAX32))
    link = [z3.And(x >= 0, x <= MAX32) for x in ra + rb] + [rr[r] == isat(ra[r], rb[r]) for r in range(depth)]

    def mn(xs):
        m_ = xs[0]
        for x in xs[1:]:
            m_ = imin(x, m_)
        return m_
    ea, eb, er = mn(ra), mn(rb), mn(rr)
    for name, g in (("min(rr) >= min(ra) and >= min(rb)", z3.And(er >= ea, er >= eb)), ("min(rr) >= sat_add(min ra, min rb)", er >= isat(ea, eb)),
                    ("ceiling is absorbing", z3.Implies(z3.Or(ea == MAX32, eb == MAX32), er == MAX32))):
        res, m = common.z3check(link + [z3.Not(g)], timeout_ms, stats, label=f"{label}: integer glue lemma depth {depth}: {name}")
        if res != "unsat":
            return "unknown", f"glue lemma {name}: {res}"
    return None, None


# ----------------------------------------------------------------------------------------------- replays
def _fresh_linear(width, depth):
    C = cm()
    return C.CountMinLinear(width, depth)


def realise_keys(width, depth, patterns):
    keys = find_keys(hashes().fasthash64, width, depth, patterns)
    if any(k is None for k in keys):
        return None
    return keys


def replay_linear_step(cex):
    """Install the pre-state table through the documented public arrays, run the real add through the public API and
    judge every clause of C05 (and saturation, C18) on query() results."""
    import numpy as np
    w, d = cex["width"], cex["depth"]
    keys = realise_keys(w, d, [cex["col_key"], cex["col_other"]])
    if keys is None:
        return {"reproduced": False, "how": "could not find concrete keys for the column pattern"}
    k, o = keys
    sk = _fresh_linear(w, d)
    sk.cms[:] = np.array(cex["table"], dtype=np.uint32).reshape(d, w)
    sk.n_added_records[:] = np.array([cex.get("n_added", 0), cex.get("n_records", 0)], dtype=np.uint64)
    before = sk.cms.copy()
    old_k, old_o = int(sk.query(k)), int(sk.query(o))
    na0, nr0 = int(sk.n_added()), int(sk.n_records())
    v = cex["value"]
    sk.add(k, v)
    new_k, new_o = int(sk.query(k)), int(sk.query(o))
    na1, nr1 = int(sk.n_added()), int(sk.n_records())
    after = sk.cms.copy()
    veff = min(v, MAX32)
    fails = []
    if new_k != min(old_k + veff, MAX32):
        fails.append(f"estimate of added key {new_k} != min(old {old_k} + v {veff}, 2^32-1)")
    if new_o < old_o:
        fails.append(f"other key's estimate decreased {old_o} -> {new_o}")
    if new_o > max(old_o, new_k):
        fails.append(f"other key's estimate {new_o} above max(own old {old_o}, key's new {new_k})")
    changed = [(r, int((before[r] != after[r]).sum())) for r in range(d)]
    if any(n > 1 for _, n in changed):
        fails.append(f"more than one counter changed in a row: {changed}")
    if old_k + veff <= MAX32 and (na1 - na0) % (1 << 64) != veff:
        fails.append(f"n_added grew by {na1 - na0}, expected {veff}")
    if nr1 != nr0:
        fails.append(f"n_records changed {nr0}->{nr1}")
    return {"reproduced": bool(fails), "how": "state installed through public cms[:]/n_added_records[:], then CountMinLinear.add / query",
            "keys": [k.hex(), o.hex()], "observed": {"old": [old_k, old_o], "new": [new_k, new_o], "n_added": [na0, na1]},
            "failed_clauses": fails}


def f64_of(m, t):
    """python float of a z3 Float64 term under model m"""
    v = m.eval(z3.fpToIEEEBV(t), model_completion=True)
    return struct.unpack("<d", struct.pack("<Q", v.as_long()))[0]


def fpval(x):
    return z3.FPVal(x, FPS)


# ----------------------------------------------------------------------------------------------- bounded histories
def skeletons(K, nsk=2):
    """Operation skeletons of length K over nsk sketches: ('add', s) | ('merge', dst, src); sketches are renamed so that
    they are first touched in increasing order, and merges from a still-empty sketch are dropped (they are no-ops)."""
    import itertools
    ops = [("add", s) for s in range(nsk)] + [("merge", a, b) for a in range(nsk) for b in range(nsk) if a != b]
    out = []
    for seq in itertools.product(ops, repeat=K):
        seen = []
        nonempty = set()
        ok = True
        for op in seq:
            touched = [op[1]] if op[0] == "add" else [op[1], op[2]]
            if op[0] == "merge" and op[2] not in nonempty:
                ok = False
                break
            for s in touched:
                if s not in seen:
                    if s != len(seen):
                        ok = False
                        break
                    seen.append(s)
            if not ok:
                break
            if op[0] == "add":
                nonempty.add(op[1])
            elif op[2] in nonempty:
                nonempty.add(op[1])
        if ok:
            out.append(seq)
    return out


def bmc_linear(width, depth, skel, nkeys=3, nsk=2, domain="boundary"):
    """Unroll the real kernels along one skeleton from empty sketches.  Keys are chosen by symbolic selectors among
    nkeys keys with symbolic columns; multiplicities are symbolic 'true' values capped like CountMinLinear.add does."""
    book = KeyBook()
    kids = [book.new_key(f"K{i}", i + 1)[1] for i in range(nkeys)]
    ex = Executor(stubs={"fasthash64": book.stub()})
    st = State()
    sks = [SymCM(st, f"s{i}", 32, width, depth, zero=True) for i in range(nsk)]
    Z = z3.BitVecVal(0, 64)
    true = [[Z for _ in range(nkeys)] for _ in range(nsk)]
    nadd = [Z for _ in range(nsk)]
    steps = []
    assume = []
    cols = [[None] * depth for _ in range(nkeys)]
    for i, kid in enumerate(kids):
        cols[i] = keycols(book, kid, width, depth)
    checks = []
    M = z3.BitVecVal(MAX32, 64)
    cap = lambda x: z3.If(z3.UGT(x, M), M, x)
    for t, op in enumerate(skel):
        if op[0] == "add":
            sel = z3.BitVec(f"sel{t}", 2)
            vt = z3.BitVec(f"v{t}", 64)
            assume.append(z3.ULT(sel, nkeys))
            if domain == "boundary":
                assume.append(z3.Or(z3.ULE(vt, 3), z3.And(z3.UGE(vt, MAX32 - 3), z3.ULE(vt, MAX32 + 3)), vt == (1 << 40)))
            else:
                assume.append(z3.ULE(vt, 1 << 40))
            v32 = z3.Extract(31, 0, cap(vt))
            key = SelKey(sel, kids)
            st = add_linear(ex, st, sks[op[1]], key, v32)
            for i in range(nkeys):
                true[op[1]][i] = true[op[1]][i] + z3.If(sel == i, vt, Z)
            steps.append(("add", op[1], sel, vt))
        else:
            st = merge_linear(ex, st, sks[op[1]], sks[op[2]])
            for i in range(nkeys):
                true[op[1]][i] = true[op[1]][i] + true[op[2]][i]
            steps.append(("merge", op[1], op[2]))
        # property after this step on every sketch, every key
        for s in range(nsk):
            for i in range(nkeys):
                e = zx(cm_est(st.heap, sks[s].cms, cols[i]), 64)
                lb = z3.UGE(e, cap(true[s][i]))
                ub = None
                for r in range(depth):
                    srow = Z
                    for j in range(nkeys):
                        srow = srow + z3.If(cols[j][r] == cols[i][r], true[s][j], Z)
                    ub = srow if ub is None else z3.If(z3.ULT(srow, ub), srow, ub)
                checks.append((t, s, i, z3.And(lb, z3.ULE(e, cap(ub)))))
    return dict(book=book, ex=ex, st=st, sks=sks, steps=steps, assume=assume + list(st.pc) + book.range_constraints(), checks=checks, cols=cols, true=true)


def bmc_decode(h, m, width, depth):
    ops = []
    for stp in h["steps"]:
        if stp[0] == "add":
            ops.append(["add", stp[1], ev(m, stp[2]), ev(m, stp[3])])
        else:
            ops.append(["merge", stp[1], stp[2]])
    return {"kind": "linear-history", "width": width, "depth": depth, "cols": [[ev(m, c) for c in row] for row in h["cols"]], "ops": ops,
            "n_sketches": len(h["sks"])}


def replay_linear_history(cex, check="c01"):
    """Run the history through the public API on fresh real sketches with real keys realising the column patterns and
    judge: true <= estimate <= classic count-min value (capped) after every step, for every key and sketch."""
    w, d = cex["width"], cex["depth"]
    keys = realise_keys(w, d, cex["cols"])
    if keys is None:
        return {"reproduced": False, "how": "could not find concrete keys for the column patterns"}
    H = hashes()
    C = cm()
    nsk = cex.get("n_sketches", 2)
    sks = [C.CountMinLinear(w, d) for _ in range(nsk)]
    true = [dict((k, 0) for k in keys) for _ in range(nsk)]
    realcols = {k: [int(H.fasthash64(k, r)) % w for r in range(d)] for k in keys}
    fails = []
    prev_est = None
    for t, op in enumerate(cex["ops"]):
        if op[0] == "add":
            k = keys[op[2]]
            sks[op[1]].add(k, op[3])
            true[op[1]][k] += op[3]
        else:
            before_src = sks[op[2]].cms.copy()
            sks[op[1]].merge(sks[op[2]])
            for k in keys:
                true[op[1]][k] += true[op[2]][k]
            if (before_src != sks[op[2]].cms).any():
                fails.append(f"step {t}: merge modified its argument")
        for s in range(nsk):
            for k in keys:
                e = int(sks[s].query(k))
                lo = min(true[s][k], MAX32)
                hi = min(min(sum(true[s][j] for j in keys if realcols[j][r] == realcols[k][r]) for r in range(d)), MAX32)
                if not (lo <= e <= hi):
                    fails.append(f"step {t} sketch {s} key {k.hex()}: estimate {e} not in [{lo}, {hi}]")
    return {"reproduced": bool(fails), "how": "fresh CountMinLinear sketches, real keys hashing to the model's columns, add/merge/query through the public API, exact integer oracle",
            "keys": [k.hex() for k in keys], "failed_clauses": fails[:6]}
