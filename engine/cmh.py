"""Count-min harness pieces for engine K: symbolic sketches, one-step runs of the real kernels, replays."""
import struct
import time
import z3
from engine import common
from engine.kit import (KeyBook, SelKey, mk_arr, cells, select_col, umin, umax, cm_est, zx, ev, find_keys, MAX32)
from engine.nbsym import (Executor, State, SBytes, Val, Arr, Store, types, cast, mk_int, Unsupported, FPS)

_MOD = {}


def cm():
    if "cm" not in _MOD:
        from sketchnu import countmin
        _MOD["cm"] = countmin
    return _MOD["cm"]


def hashes():
    if "h" not in _MOD:
        from sketchnu import hashes as h
        _MOD["h"] = h
    return _MOD["h"]


U = {32: types.uint32, 16: types.uint16, 8: types.uint8}


class SymCM:
    """Symbolic count-min sketch state (arrays live in a nbsym State heap)."""

    def __init__(self, st, name, bits, width, depth, zero=False):
        self.bits, self.width, self.depth = bits, width, depth
        self.cms = mk_arr(st, f"{name}_cms", U[bits], (depth, width), zero)
        self.nar = mk_arr(st, f"{name}_nar", types.uint64, (2,), zero)
        self.bk = mk_arr(st, f"{name}_bk", types.uint64, (depth,), zero)

    def table(self, st):
        return cells(st, self.cms)

    def cell(self, st, r, c):
        return cells(st, self.cms)[r * self.width + c]


def run1(ex, disp, st, args):
    outs = ex.call_dispatcher(disp, st, args)
    outs = [(s, v) for (s, v) in outs if not (isinstance(v, tuple) and v and v[0] == "raise")]
    if len(outs) != 1:
        raise Unsupported(f"{disp.py_func.__name__}: {len(outs)} non-raising outcomes (expected one merged outcome)")
    return outs[0]


def add_linear(ex, st, sk, key, value32):
    C = cm()
    W = mk_int(types.uint64, sk.width)
    D = mk_int(types.uint64, sk.depth)
    return run1(ex, C._add_linear, st, [sk.cms, sk.nar, sk.bk, W, D, mk_int(types.uint32, MAX32), key, Val(types.uint32, value32)])[0]


def query_linear(ex, st, sk, key):
    C = cm()
    W = mk_int(types.uint64, sk.width)
    D = mk_int(types.uint64, sk.depth)
    s, v = run1(ex, C._query_linear, st, [sk.cms, sk.bk, W, D, mk_int(types.uint32, MAX32), key])
    return s, v


def merge_linear(ex, st, a, b):
    C = cm()
    W = mk_int(types.uint64, a.width)
    D = mk_int(types.uint64, a.depth)
    return run1(ex, C._merge_linear, st, [a.cms, b.cms, W, D, mk_int(types.uint32, MAX32), a.nar, b.nar])[0]


def keycols(book, kid, width, depth):
    return [book.colterm(kid, r, width) for r in range(depth)]


def safety_goals(st):
    """side conditions collected by the interpreter: any of them satisfiable = unsafe access possible"""
    return [(k, c) for (k, c) in st.oblig]


def first_failure(assume, clauses, timeout_ms, stats, label):
    """clauses: list of (name, prop).  Returns (None, None) if all unsat; ('unknown', name) or ('sat', (name, model))."""
    for name, prop in clauses:
        r, m = common.z3check(list(assume) + [z3.Not(prop)], timeout_ms, stats, label=f"{label}: {name}")
        if r == "sat":
            return "sat", (name, m)
        if r != "unsat":
            return "unknown", name
    return None, None


# ----------------------------------------------------------------------------------------------- replays
def _fresh_linear(width, depth):
    C = cm()
    return C.CountMinLinear(width, depth)


def realise_keys(width, depth, patterns):
    keys = find_keys(hashes().fasthash64, width, depth, patterns)
    if any(k is None for k in keys):
        return None
    return keys


def replay_linear_step(cex):
    """Install the pre-state table through the documented public arrays, run the real add through the public API and
    judge every clause of C05 (and saturation, C18) on query() results."""
    import numpy as np
    w, d = cex["width"], cex["depth"]
    keys = realise_keys(w, d, [cex["col_key"], cex["col_other"]])
    if keys is None:
        return {"reproduced": False, "how": "could not find concrete keys for the column pattern"}
    k, o = keys
    sk = _fresh_linear(w, d)
    sk.cms[:] = np.array(cex["table"], dtype=np.uint32).reshape(d, w)
    sk.n_added_records[:] = np.array([cex.get("n_added", 0), cex.get("n_records", 0)], dtype=np.uint64)
    before = sk.cms.copy()
    old_k, old_o = int(sk.query(k)), int(sk.query(o))
    na0, nr0 = int(sk.n_added()), int(sk.n_records())
    v = cex["value"]
    sk.add(k, v)
    new_k, new_o = int(sk.query(k)), int(sk.query(o))
    na1, nr1 = int(sk.n_added()), int(sk.n_records())
    after = sk.cms.copy()
    veff = min(v, MAX32)
    fails = []
    if new_k != min(old_k + veff, MAX32):
        fails.append(f"estimate of added key {new_k} != min(old {old_k} + v {veff}, 2^32-1)")
    if new_o < old_o:
        fails.append(f"other key's estimate decreased {old_o} -> {new_o}")
    if new_o > max(old_o, new_k):
        fails.append(f"other key's estimate {new_o} above max(own old {old_o}, key's new {new_k})")
    changed = [(r, int((before[r] != after[r]).sum())) for r in range(d)]
    if any(n > 1 for _, n in changed):
        fails.append(f"more than one counter changed in a row: {changed}")
    if old_k + veff <= MAX32 and (na1 - na0) % (1 << 64) != veff:
        fails.append(f"n_added grew by {na1 - na0}, expected {veff}")
    if nr1 != nr0:
        fails.append(f"n_records changed {nr0}->{nr1}")
    return {"reproduced": bool(fails), "how": "state installed through public cms[:]/n_added_records[:], then CountMinLinear.add / query",
            "keys": [k.hex(), o.hex()], "observed": {"old": [old_k, old_o], "new": [new_k, new_o], "n_added": [na0, na1]},
            "failed_clauses": fails}


def f64_of(m, t):
    """python float of a z3 Float64 term under model m"""
    v = m.eval(z3.fpToIEEEBV(t), model_completion=True)
    return struct.unpack("<d", struct.pack("<Q", v.as_long()))[0]


def fpval(x):
    return z3.FPVal(x, FPS)
