"""Shared runner for all checks: obligation scheduling (one forked process per obligation, hard-killed on
overrun), solver bookkeeping, replay/violation protocol, known findings, evidence files.

Exit codes: 0 = held on everything explored; 1 = violation, replayed on the real code (VIOLATION line);
2 = inconclusive / harness error (never accompanied by a VIOLATION line)."""
import hashlib
import json
import multiprocessing as mp
import os
import sys
import time
import traceback

ROOT = os.path.dirname(os.path.dirname(os.path.abspath(__file__)))
REPO = os.environ.get("VERIF_REPO", "/repo")
NPROC = int(os.environ.get("VERIF_NPROC", "0")) or min(16, os.cpu_count() or 4)


def get_tier(argv=None):
    argv = sys.argv if argv is None else argv
    t = os.environ.get("VERIF_TIER", "quick")
    if "--tier" in argv:
        t = argv[argv.index("--tier") + 1]
    return "thorough" if t == "thorough" else "quick"


def get_seed():
    try:
        return int(os.environ.get("VERIF_SEED", "0"))
    except ValueError:
        return 0


# --------------------------------------------------------------------------------------------- solver helper
def cvc5_enabled():
    return os.environ.get("VERIF_CVC5", "") == "1" or (os.environ.get("VERIF_CVC5", "") != "0" and get_tier() == "thorough")


def cvc5_recheck(sexpr, tlimit_ms=60000):
    """re-decide a z3 query with cvc5 1.4 (python API).  Returns 'sat' | 'unsat' | 'unknown' | 'skipped: <why>'"""
    if "FloatingPoint" in sexpr or "fp." in sexpr or "RoundingMode" in sexpr or "to_fp" in sexpr:
        return "skipped: floating point"
    try:
        import cvc5
    except Exception as e:  # pragma: no cover
        return f"skipped: no cvc5 ({e})"
    try:
        slv = cvc5.Solver()
        slv.setOption("tlimit-per", str(int(tlimit_ms)))
        ip = cvc5.InputParser(slv)
        ip.setStringInput(cvc5.InputLanguage.SMT_LIB_2_6, "(set-logic ALL)\n" + sexpr + "\n(check-sat)\n", "q")
        sm = ip.getSymbolManager()
        res = "unknown"
        while True:
            cmd = ip.nextCommand()
            if cmd.isNull():
                break
            out = cmd.invoke(slv, sm).strip()
            if out in ("sat", "unsat", "unknown"):
                res = out
            elif out.startswith("(error"):
                return "skipped: " + out[:80]
        return res
    except Exception as e:
        return "skipped: " + str(e)[:80]


class Stats:
    def __init__(self):
        self.cvc5 = {"agree": 0, "disagree": 0, "unknown": 0, "skipped": 0}
        self.q = {"unsat": 0, "sat": 0, "unknown": 0}
        self.solver_s = 0.0
        self.digests = set()
        self.samples = []

    def as_dict(self):
        return {"queries": dict(self.q), "solver_s": round(self.solver_s, 3), "digests": sorted(self.digests),
                "samples": self.samples[:3], "cvc5": dict(self.cvc5)}


def z3check(assertions, timeout_ms, stats=None, label=None, tactic=None):
    """One check-sat.  Returns (status_str, model_or_None).  'unknown' covers timeouts and errors."""
    import z3
    s = z3.Solver() if tactic is None else z3.Then(*tactic).solver() if isinstance(tactic, (list, tuple)) else z3.Tactic(tactic).solver()
    s.set("timeout", int(timeout_ms))
    for a in assertions:
        s.add(a)
    t = time.time()
    try:
        r = str(s.check())
    except z3.Z3Exception as e:  # pragma: no cover
        r = "unknown"
    dt = time.time() - t
    if stats is not None:
        stats.q[r if r in stats.q else "unknown"] += 1
        stats.solver_s += dt
        try:
            sx = s.sexpr()
            stats.digests.add(hashlib.sha1(sx.encode()).hexdigest()[:16])
            if label and len(stats.samples) < 3:
                stats.samples.append({"obligation": label, "result": r, "solver_s": round(dt, 3),
                                      "smt2_head": sx[:600]})
            if r in ("sat", "unsat") and dt < 60 and tactic is None and cvc5_enabled():
                c = cvc5_recheck(sx)
                if c == r:
                    stats.cvc5["agree"] += 1
                elif c in ("sat", "unsat"):
                    stats.cvc5["disagree"] += 1
                    r = "unknown"   # two solvers disagree: a harness error, never a verdict
                elif c == "unknown":
                    stats.cvc5["unknown"] += 1
                else:
                    stats.cvc5["skipped"] += 1
        except Exception:
            pass
    return r, (s.model() if r == "sat" else None)


NL_PORTFOLIO = [({"arith.nl.grobner": False}, 0.2), ({"random_seed": 7, "smt.random_seed": 7}, 0.2), ({"arith.nl.grobner": False, "random_seed": 3, "smt.random_seed": 3}, 0.2), ({}, 0.4),
                ({"random_seed": 11, "smt.random_seed": 11, "arith.nl.tangents": False}, 0.2), ({"arith.nl.grobner": False, "random_seed": 23, "smt.random_seed": 23}, 0.2)]


def z3check_portfolio(assertions, timeout_ms, stats=None, label=None, portfolio=NL_PORTFOLIO):
    """Non-linear arithmetic queries have high run-time variance across z3 heuristics: try a few configurations in
    turn, each with a share of the time budget.  unsat/sat from any configuration is final."""
    import z3
    last = ("unknown", None)
    for params, share in portfolio:
        s = z3.Solver()
        s.set("timeout", int(timeout_ms * share))
        for k, v in params.items():
            s.set(k, v)
        for a in assertions:
            s.add(a)
        t = time.time()
        try:
            r = str(s.check())
        except z3.Z3Exception:
            r = "unknown"
        dt = time.time() - t
        if stats is not None:
            stats.q[r if r in stats.q else "unknown"] += 1
            stats.solver_s += dt
            try:
                sx = s.sexpr()
                stats.digests.add(hashlib.sha1(sx.encode()).hexdigest()[:16])
                if label and len(stats.samples) < 3 and r != "unknown":
                    stats.samples.append({"obligation": label, "result": r, "solver_s": round(dt, 3), "z3_params": params, "smt2_head": sx[:600]})
            except Exception:
                pass
        if r in ("sat", "unsat"):
            return r, (s.model() if r == "sat" else None)
        last = (r, None)
    return last


def z3check_race(assertions, timeout_ms, stats=None, label=None, portfolio=NL_PORTFOLIO):
    """Same portfolio, but the configurations race in forked processes; the first decisive answer wins.  A `sat` answer
    is re-derived in-process with the winning configuration to obtain the model."""
    import z3
    import select
    kids = []
    t0 = time.time()
    for i, (params, _share) in enumerate(portfolio):
        r_fd, w_fd = os.pipe()
        pid = os.fork()
        if pid == 0:
            os.close(r_fd)
            res = "unknown"
            try:
                s = z3.Solver()
                s.set("timeout", int(timeout_ms))
                for k, v in params.items():
                    s.set(k, v)
                for a in assertions:
                    s.add(a)
                res = str(s.check())
            except BaseException:
                res = "unknown"
            try:
                os.write(w_fd, res.encode())
            finally:
                os._exit(0)
        os.close(w_fd)
        kids.append((pid, r_fd, i))
    winner, answer = None, "unknown"
    open_fds = {fd: (pid, i) for pid, fd, i in kids}
    deadline = t0 + timeout_ms / 1000.0 + 15
    while open_fds and time.time() < deadline:
        rl, _, _ = select.select(list(open_fds), [], [], 0.5)
        for fd in rl:
            data = os.read(fd, 64).decode()
            pid, i = open_fds.pop(fd)
            os.close(fd)
            if data in ("sat", "unsat") and winner is None:
                winner, answer = i, data
        if winner is not None:
            break
    for pid, fd, i in kids:
        try:
            os.kill(pid, 9)
        except OSError:
            pass
        try:
            os.waitpid(pid, 0)
        except OSError:
            pass
        if fd in open_fds:
            os.close(fd)
    dt = time.time() - t0
    if stats is not None:
        stats.q[answer if answer in stats.q else "unknown"] += 1
        stats.solver_s += dt
        try:
            sx = z3.And(*assertions).sexpr() if assertions else ""
            stats.digests.add(hashlib.sha1(sx.encode()).hexdigest()[:16])
            if label and len(stats.samples) < 3 and answer != "unknown":
                stats.samples.append({"obligation": label, "result": answer, "solver_s": round(dt, 3), "z3_params": portfolio[winner][0], "smt2_head": sx[:600]})
        except Exception:
            pass
    if answer == "sat":
        s = z3.Solver()
        s.set("timeout", int(timeout_ms))
        for k, v in portfolio[winner][0].items():
            s.set(k, v)
        for a in assertions:
            s.add(a)
        if str(s.check()) == "sat":
            return "sat", s.model()
        return "unknown", None
    return answer, None


# --------------------------------------------------------------------------------------------- obligations
class Ob:
    """One unit of work executed in its own forked process.
    fn(*args) must return a dict:
      status: 'proved' | 'cex' | 'unknown' | 'witness' | 'nowitness' | 'error'
      stats: Stats.as_dict()   (optional)
      cex:   json-able description of the counterexample (status == 'cex')
      replay: {'reproduced': bool, 'observed': ..., 'how': ...}  (status == 'cex')
      finding_key: str used to match known_findings.json (status == 'cex')
      funcs: list of encoded functions, note: str
    kind: 'prove' (must be 'proved'), 'witness' (must be 'witness': reachability twin)."""

    def __init__(self, name, fn, args=(), kind="prove", hard_s=600, bounds=None):
        self.name, self.fn, self.args, self.kind, self.hard_s, self.bounds = name, fn, args, kind, hard_s, bounds


def _child(conn, ob):
    t = time.time()
    try:
        r = ob.fn(*ob.args)
        if not isinstance(r, dict):
            r = {"status": "error", "note": f"obligation returned {type(r)}"}
    except BaseException as e:  # noqa
        r = {"status": "error", "note": f"{type(e).__name__}: {e}", "trace": traceback.format_exc()[-2500:]}
    r["wall_s"] = round(time.time() - t, 3)
    try:
        conn.send(r)
    except Exception as e:  # unpicklable payload
        conn.send({"status": "error", "note": f"result not sendable: {e}", "wall_s": r.get("wall_s", 0)})
    conn.close()


def run_obligations(obs, nproc=None, progress=True):
    """Run obligations with at most nproc concurrent forked children.  Returns list of result dicts (same order)."""
    nproc = nproc or NPROC
    ctx = mp.get_context("fork")
    results = [None] * len(obs)
    pending = list(range(len(obs)))
    running = {}  # idx -> (proc, conn, t0)
    t_start = time.time()
    while pending or running:
        while pending and len(running) < nproc:
            i = pending.pop(0)
            pc, cc = ctx.Pipe(duplex=False)
            p = ctx.Process(target=_child, args=(cc, obs[i]))
            p.start()
            cc.close()
            running[i] = (p, pc, time.time())
        done = []
        for i, (p, pc, t0) in running.items():
            if pc.poll(0):
                try:
                    results[i] = pc.recv()
                except EOFError:
                    results[i] = {"status": "error", "note": "child died without result"}
                p.join()
                done.append(i)
            elif not p.is_alive():
                if pc.poll(0.05):
                    try:
                        results[i] = pc.recv()
                    except EOFError:
                        results[i] = {"status": "error", "note": "child died without result"}
                else:
                    results[i] = {"status": "unknown", "note": f"child exited with code {p.exitcode} (killed / out of memory?)"}
                p.join()
                done.append(i)
            elif time.time() - t0 > obs[i].hard_s:
                p.kill()
                p.join()
                results[i] = {"status": "unknown", "note": f"hard limit {obs[i].hard_s}s exceeded; killed",
                              "wall_s": round(time.time() - t0, 1)}
                done.append(i)
        for i in done:
            running.pop(i)
            if progress:
                r = results[i]
                print(f"  [{time.time() - t_start:7.1f}s] {obs[i].name}: {r.get('status')}"
                      f" ({r.get('wall_s', '?')}s){' -- ' + str(r.get('note')) if r.get('note') else ''}", flush=True)
        if not done:
            time.sleep(0.02)
    return results


# --------------------------------------------------------------------------------------------- findings
def call_with_timeout(fn, seconds):
    """run fn() in a forked child; returns its (picklable) result, or None on timeout/crash.  For replays whose honest
    run time on a correct tree is unbounded-ish (jitted loops do not see signals)."""
    import pickle
    import select
    r, w = os.pipe()
    pid = os.fork()
    if pid == 0:
        try:
            os.close(r)
            data = pickle.dumps(fn())
            with os.fdopen(w, "wb") as fh:
                fh.write(data)
        except BaseException:
            pass
        finally:
            os._exit(0)
    os.close(w)
    buf = b""
    end = time.time() + seconds
    with os.fdopen(r, "rb") as fh:
        while True:
            left = end - time.time()
            if left <= 0:
                break
            ready, _, _ = select.select([fh], [], [], min(left, 1.0))
            if ready:
                chunk = fh.read()
                buf += chunk
                break
    try:
        os.kill(pid, 9)
    except OSError:
        pass
    try:
        os.waitpid(pid, 0)
    except OSError:
        pass
    if not buf:
        return None
    try:
        return pickle.loads(buf)
    except Exception:
        return None


def load_known_findings():
    p = os.path.join(ROOT, "known_findings.json")
    if not os.path.exists(p):
        return []
    with open(p) as f:
        return json.load(f).get("findings", [])


def finish(pid, tier, level, obs, results, *, t0, funcs, bounds, stubs, assumptions, outside, explanation,
           extra_cov=None, validation=None, technique=None):
    """Aggregate results, write evidence, print protocol lines, return exit code."""
    known = [k for k in load_known_findings() if k.get("property") == pid and k.get("status") == "known"]
    seed = get_seed()
    q = {"unsat": 0, "sat": 0, "unknown": 0}
    solver_s = 0.0
    digests = set()
    samples = []
    cv = {"agree": 0, "disagree": 0, "unknown": 0, "skipped": 0}
    proved = cex_new = cex_known = inconclusive = witnesses = 0
    lines = []
    problems = []
    violations = []
    known_hit = {}
    for ob, r in zip(obs, results):
        st = r.get("stats") or {}
        for k in q:
            q[k] += (st.get("queries") or {}).get(k, 0)
        solver_s += st.get("solver_s", 0.0)
        for k in cv:
            cv[k] += (st.get("cvc5") or {}).get(k, 0)
        digests.update(st.get("digests", []))
        for s in st.get("samples", []):
            if len(samples) < 6:
                samples.append(s)
        status = r.get("status")
        if ob.kind == "witness":
            if status == "witness":
                witnesses += 1
            else:
                inconclusive += 1
                problems.append(f"{ob.name}: reachability witness not found ({status}: {r.get('note')})")
            continue
        if status == "proved":
            proved += 1
        elif status == "cex":
            rp = r.get("replay") or {}
            if not rp.get("reproduced"):
                inconclusive += 1
                problems.append(f"{ob.name}: solver counterexample did NOT reproduce on the real code "
                                f"(encoding/stub error?): cex={json.dumps(r.get('cex'), default=str)[:400]} replay={json.dumps(rp, default=str)[:300]}")
                continue
            fk = r.get("finding_key") or ""
            hit = next((k for k in known if k.get("key") and k["key"] == fk), None)
            if hit is not None:
                cex_known += 1
                known_hit.setdefault(hit["key"], (hit, ob.name, r))
            else:
                cex_new += 1
                violations.append((ob, r))
        else:
            inconclusive += 1
            problems.append(f"{ob.name}: {status}: {r.get('note')}" + (("\n" + r["trace"]) if r.get("trace") else ""))
    # replay files + protocol lines
    rdir = "replays" if ("--no-evidence" not in sys.argv and not os.environ.get("VERIF_NO_EVIDENCE")) else os.path.join("replays", "scratch")
    os.makedirs(os.path.join(ROOT, rdir), exist_ok=True)
    import glob
    for old in glob.glob(os.path.join(ROOT, rdir, f"{pid}-*.json")):
        try:
            os.remove(old)
        except OSError:
            pass
    seen_digest = set()
    for ob, r in violations:
        payload = {"property": pid, "obligation": ob.name, "cex": r.get("cex"), "replay": r.get("replay"),
                   "finding_key": r.get("finding_key"), "tier": tier}
        dg = hashlib.sha1(json.dumps(payload, sort_keys=True, default=str).encode()).hexdigest()[:12]
        path = os.path.join(ROOT, rdir, f"{pid}-{dg}.json")
        with open(path, "w") as f:
            json.dump(payload, f, indent=1, default=str)
        if dg not in seen_digest:
            seen_digest.add(dg)
            lines.append(f"VIOLATION property={pid} replay={path}")
    for key, (hit, obname, r) in known_hit.items():
        lines.append(f"KNOWN-FINDING: property={pid} {hit.get('what', key)} [key={key}; first seen in obligation {obname}]")
    n_prove = sum(1 for o in obs if o.kind == "prove")
    cov = {
        "evaluations": max(1, q["unsat"] + q["sat"] + q["unknown"]),
        "distinct_nontrivial": len(digests),
        "rule": "engine K: one evaluation = one z3 check-sat over symbolic inputs; distinct = distinct SMT-LIB text of the query "
                "(sha1); non-trivial = the query reached the solver (terms that simplify to a constant are not counted). "
                "engine W: one evaluation = one CrossHair condition (a pre/post contract explored over all paths; CrossHair's "
                "internal z3 queries are not counted); distinct by condition name",
        "samples": samples or [{"note": "no solver query recorded"}],
        "obligations": n_prove,
        "discharged": proved,
        "witnesses_required": sum(1 for o in obs if o.kind == "witness"),
        "witnesses_found": witnesses,
        "solver_queries": q,
        "solver_time_s": round(solver_s, 2),
        "cvc5_crosscheck": dict(cv, enabled=cvc5_enabled(), note="engine-K bit-vector/UF/array/integer queries decided by z3 in < 60 s are re-decided by cvc5 1.4.0; floating-point queries are skipped; a disagreement turns the obligation inconclusive"),
        "functions_encoded": sorted(set(funcs)),
        "bounds": bounds,
        "stubs_and_axioms": stubs,
        "outside_the_claim": outside,
        "explanation": explanation,
        "checker_cmd": " ".join(sys.argv),
        "trusted_base": ["numba front end + type inference (used to produce the encoded IR)", "z3 5.1.0 (z3-solver wheel)", "engine/nbsym.py interpreter (validated by differential runs each execution)"]
                        + (["CrossHair 0.0.110 (Python semantics, path exhaustion)", "engine/shim/shims.py environment model (every counterexample is re-judged on the real library)"] if any(o.name.startswith("W ") for o in obs) else []),
        "exhaustive": False,
        "per_obligation": [{"name": o.name, "kind": o.kind, "status": r.get("status"), "wall_s": r.get("wall_s"),
                            "bounds": o.bounds, "note": r.get("note")} for o, r in zip(obs, results)][:400],
        "known_findings_reported": sorted(known_hit),
        "inconclusive": problems[:20],
    }
    if validation:
        cov["traces_validated_against_impl"] = validation.get("n", 0)
        cov["translator_validation"] = validation
    if technique:
        cov["technique"] = technique
    if extra_cov:
        cov.update(extra_cov)
    ev = {"property_id": pid, "tier": tier, "seed": seed, "level": level, "coverage": cov,
          "assumptions": assumptions, "wall_s": round(time.time() - t0, 2), "violations": cex_new}
    if "--no-evidence" not in sys.argv and not os.environ.get("VERIF_NO_EVIDENCE"):
        os.makedirs(os.path.join(ROOT, "evidence"), exist_ok=True)
        with open(os.path.join(ROOT, "evidence", f"{pid}.json"), "w") as f:
            json.dump(ev, f, indent=1, default=str)
    for ln in lines:
        print(ln, flush=True)
    print(f"{pid} [{tier}]: obligations={n_prove} proved={proved} violations={cex_new} known={cex_known} "
          f"inconclusive={inconclusive} witnesses={witnesses} queries={q} solver_s={solver_s:.1f} wall_s={time.time() - t0:.1f}"
          + (f" cvc5={cv}" if cvc5_enabled() else ""), flush=True)
    if cex_new:
        return 1
    if inconclusive:
        for p in problems[:20]:
            print("INCONCLUSIVE:", p, file=sys.stderr, flush=True)
        return 2
    return 0
