"""Heavy-hitter (Topkapi) harness pieces for engine K: symbolic cells, one-step runs of the real kernels, key identity,
bounded histories with symbolic key bytes, replays through the public API."""
import itertools
import z3
from engine import common
from engine.kit import KeyBook, mk_arr, cells, select_col, zx, ev, find_keys, MAX32, umin, umax
from engine.nbsym import Executor, State, SBytes, Val, Arr, types, cast, mk_int, Unsupported

_M = {}


def hh():
    if "hh" not in _M:
        from sketchnu import heavyhitters
        _M["hh"] = heavyhitters
    return _M["hh"]


def hashes():
    if "h" not in _M:
        from sketchnu import hashes as h
        _M["h"] = h
    return _M["h"]


class SymHH:
    def __init__(self, st, name, width, depth, mkl, zero=False):
        self.width, self.depth, self.mkl = width, depth, mkl
        self.lhh = mk_arr(st, f"{name}_lhh", types.uint8, (depth, width, mkl), zero)
        self.cnt = mk_arr(st, f"{name}_cnt", types.uint32, (depth, width), zero)
        self.kl = mk_arr(st, f"{name}_kl", types.uint8, (depth, width), zero)
        self.nar = mk_arr(st, f"{name}_nar", types.uint64, (2,), zero)

    def cell(self, heap, r, c):
        """(bytes list, len, count) terms of cell (r, c)"""
        base = (r * self.width + c)
        b = list(heap[self.lhh.sid][base * self.mkl:(base + 1) * self.mkl])
        return b, heap[self.kl.sid][base], heap[self.cnt.sid][base]

    def rep_inv(self, heap):
        """representation invariant: stored length <= max_key_len and bytes past the stored length are zero"""
        cl = []
        for r in range(self.depth):
            for c in range(self.width):
                b, ln, _cnt = self.cell(heap, r, c)
                cl.append(z3.ULE(ln, self.mkl))
                for i in range(self.mkl):
                    cl.append(z3.Implies(z3.ULE(ln, i), b[i] == 0))
        return z3.And(*cl)


def run1(ex, disp, st, args):
    outs = ex.call_dispatcher(disp, st, args)
    outs = [(s, v) for (s, v) in outs if not (isinstance(v, tuple) and v and v[0] == "raise")]
    if len(outs) != 1:
        raise Unsupported(f"{disp.py_func.__name__}: {len(outs)} non-raising outcomes")
    return outs[0]


def add(ex, st, sk, key, value32):
    W, D, K = mk_int(types.uint64, sk.width), mk_int(types.uint64, sk.depth), mk_int(types.uint64, sk.mkl)
    return run1(ex, hh()._add, st, [sk.lhh, sk.cnt, sk.kl, sk.nar, W, D, K, mk_int(types.uint32, MAX32), key, Val(types.uint32, value32)])[0]


def merge(ex, st, a, b):
    W, D = mk_int(types.uint64, a.width), mk_int(types.uint64, a.depth)
    return run1(ex, hh()._merge, st, [a.lhh, a.cnt, a.kl, a.nar, W, D, mk_int(types.uint32, MAX32), b.lhh, b.cnt, b.kl, b.nar])[0]


def max_count(ex, st, sk, key, key_len):
    """_max_count's signature differs between the pinned tree (no key_lens) and the repaired one: adapt to the real one"""
    disp = hh()._max_count
    nargs = len(disp.nopython_signatures[0].args)
    W, D, K = mk_int(types.uint64, sk.width), mk_int(types.uint64, sk.depth), mk_int(types.uint64, sk.mkl)
    import inspect
    names = list(inspect.signature(disp.py_func).parameters)
    pool = {"lhh": sk.lhh, "lhh_count": sk.cnt, "key_lens": sk.kl, "width": W, "depth": D, "max_key_len": K, "key": key,
            "key_len": mk_int(types.uint8, key_len), "uint_maxval": mk_int(types.uint32, MAX32)}
    try:
        args = [pool[n] for n in names]
    except KeyError as e:
        raise Unsupported(f"_max_count has an unknown parameter {e}")
    post, rv = run1(ex, disp, st, args)
    # what Python receives: the kernel's declared return type decides the sign (uint32 zero-extends, a signed type
    # sign-extends); callers reason about this 64-bit two's-complement integer
    return post, cast(rv, types.int64, ex)


def ident(keycells, L, mkl):
    """identity of a key of length L: (length capped at max_key_len, first bytes zero-padded to max_key_len)"""
    n = min(L, mkl)
    return n, list(keycells[:n]) + [z3.BitVecVal(0, 8)] * (mkl - n)


def same_ident(len_a, bytes_a, len_b, bytes_b):
    la = len_a if z3.is_expr(len_a) else z3.BitVecVal(len_a, 8)
    lb = len_b if z3.is_expr(len_b) else z3.BitVecVal(len_b, 8)
    return z3.And(la == lb, *[x == y for x, y in zip(bytes_a, bytes_b)])


def new_key(name, L):
    return SBytes([z3.BitVec(f"{name}_b{i}", 8) for i in range(L)])


# ----------------------------------------------------------------------------------------------- replay
def replay_hh_history(cex, judge=("overcount", "dominate")):
    """Run a history of adds/merges on fresh real sketches through the public API and judge hh[key] / query() against
    exact counts keyed by (first max_key_len bytes).  cex: width, depth, mkl, keys (hex), ops, probes (hex keys)."""
    Hm = hh()
    w, d, mkl = cex["width"], cex["depth"], cex["mkl"]
    keys = [bytes.fromhex(k) for k in cex["keys"]]
    nsk = cex.get("n_sketches", 2)
    sks = [Hm.HeavyHitters(w, d, mkl, phi=cex.get("phi", 0.01)) for _ in range(nsk)]
    true = [dict() for _ in range(nsk)]
    total = [0] * nsk
    fails = []
    H = hashes()

    def idn(k):
        return k[:mkl]

    def colsof(k):
        kk = idn(k)
        return [int(H.fasthash64(kk, r)) % w for r in range(d)]
    probes = [bytes.fromhex(k) for k in cex.get("probes", [])] + keys
    sat = [False] * nsk
    for t, op in enumerate(cex["ops"]):
        if op[0] == "add":
            k = keys[op[2]]
            sks[op[1]].add(k, op[3])
            true[op[1]][idn(k)] = true[op[1]].get(idn(k), 0) + op[3]
            total[op[1]] += op[3]
        else:
            sks[op[1]].merge(sks[op[2]])
            for k, v in true[op[2]].items():
                true[op[1]][k] = true[op[1]].get(k, 0) + v
            total[op[1]] += total[op[2]]
        for s in range(nsk):
            if total[s] > MAX32:
                sat[s] = True
            seen = set()
            for q in probes:
                if len(q) > mkl or q in seen:
                    continue
                seen.add(q)
                got = int(sks[s][q])
                f = true[s].get(q, 0)
                if "overcount" in judge and got > f:
                    fails.append(f"step {t} sketch {s}: hh[{q!r}] = {got} > true count {f}")
                if "dominate" in judge and not sat[s]:
                    cq = colsof(q)
                    bound = max(2 * f - sum(v for kk, v in true[s].items() if colsof(kk)[r] == cq[r]) for r in range(d))
                    if bound > 0 and got < bound:
                        fails.append(f"step {t} sketch {s}: hh[{q!r}] = {got} < 2f-W = {bound} (f={f})")
            rep = sks[s].query(1000, 1)
            for (kk, c) in rep:
                f = true[s].get(bytes(kk), 0)
                if "overcount" in judge and c > f:
                    fails.append(f"step {t} sketch {s}: query() reports ({bytes(kk)!r}, {c}) but the true count is {f}")
            if "dominate" in judge and not sat[s]:
                repd = {bytes(kk): c for kk, c in rep}
                for kk, f in true[s].items():
                    ck = colsof(kk)
                    bound = max(2 * f - sum(v for k2, v in true[s].items() if colsof(k2)[r] == ck[r]) for r in range(d))
                    if bound >= 1 and repd.get(kk, 0) < bound:
                        fails.append(f"step {t} sketch {s}: query(k=1000, threshold=1) misses/undercounts {kk!r}: reported {repd.get(kk)} < 2f-W = {bound}")
                    if 2 * f > total[s] and (not rep or bytes(rep[0][0]) != kk):
                        fails.append(f"step {t} sketch {s}: majority key {kk!r} (f={f} of N={total[s]}) is not reported first: {rep[:2]}")
    return {"reproduced": bool(fails), "how": "fresh HeavyHitters sketches; add/merge/__getitem__/query through the public API; exact dict oracle keyed by the first max_key_len bytes",
            "failed_clauses": fails[:6]}


def classify_alias(cex):
    """finding key for known-findings matching: does the failing history involve keys that differ only by trailing NUL
    bytes / length (the F1 class)?"""
    ks = [bytes.fromhex(k) for k in cex.get("keys", [])] + [bytes.fromhex(k) for k in cex.get("probes", [])]
    mkl = cex["mkl"]
    ids = set(k[:mkl] for k in ks)
    padded = {}
    for k in ids:
        padded.setdefault(k.ljust(mkl, b"\0"), set()).add(k)
    if any(len(v) > 1 for v in padded.values()):
        return "nul-padding-alias"
    return "other"
