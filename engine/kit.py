"""Harness kit shared by the engine-K checks: key book (hash stub -> symbolic columns), symbolic arrays,
estimate terms, model evaluation helpers and the search for concrete keys realising a column pattern."""
import itertools
import z3
from engine.nbsym import (Executor, State, SBytes, Val, Arr, Store, HashToken, types, cast, mk_int, Unsupported)

MAX32 = (1 << 32) - 1


class SelKey(SBytes):
    """A key chosen by a symbolic selector among registered concrete-identity keys (used by the BMC harnesses)."""

    def __init__(self, sel, kids, length=1):
        SBytes.__init__(self, [z3.BitVecVal(0, 8)] * length)
        self.sel = sel
        self.kids = list(kids)


class KeyBook:
    """Stub for sketchnu.hashes.fasthash64 inside sketch kernels: the hash value is consumed only by `% width`, so the
    stub hands out a fresh column variable per (key identity, seed, width), memoised."""

    def __init__(self):
        self.ids = {}
        self.names = {}
        self.cols = {}
        self.calls = []  # (kid, seed_const or None)

    def register(self, sb, name=None):
        if isinstance(sb, SelKey):
            return ("sel", sb.sel.get_id(), tuple(sb.kids))
        ident = tuple(c.get_id() for c in sb.cells) + (len(sb),)
        if ident not in self.ids:
            self.ids[ident] = len(self.ids)
            self.names[self.ids[ident]] = name or f"k{self.ids[ident]}"
        return self.ids[ident]

    def new_key(self, name, length=1):
        sb = SBytes([z3.BitVec(f"{name}_b{i}", 8) for i in range(length)])
        kid = self.register(sb, name)
        return sb, kid

    def col(self, kid, seed, W):
        k = (kid, seed, W)
        if k not in self.cols:
            bits = max(1, (W - 1).bit_length())
            v = z3.BitVec(f"col_{self.names[kid]}_r{seed}_w{W}", bits)
            c = z3.ULT(v, z3.BitVecVal(W, bits)) if W < (1 << bits) else None
            self.cols[k] = (v, c)
        return self.cols[k]

    def colterm(self, kid, seed, W):
        return self.col(kid, seed, W)[0]

    def range_constraints(self):
        return [c for (_v, c) in self.cols.values() if c is not None]

    def stub(self):
        book = self

        def hash_stub(ex, state, args, sig):
            key, seed = args
            seed = cast(seed, types.uint64)
            if isinstance(key, SelKey):
                def colfn(sc, W, key=key):
                    t = None
                    cs = []
                    for i, kid in reversed(list(enumerate(key.kids))):
                        v, c = book.col(kid, sc, W)
                        if c is not None:
                            cs.append(c)
                        t = v if t is None else z3.If(key.sel == i, v, t)
                    return t, (z3.And(*cs) if cs else None)
                book.calls.append((("sel",) + tuple(key.kids), z3.simplify(seed.t)))
                return [(state, HashToken(types.uint64, None, seed, colfn))]
            kid = book.register(key)
            book.calls.append((kid, z3.simplify(seed.t)))
            return [(state, HashToken(types.uint64, kid, seed, lambda sc, W, kid=kid: book.col(kid, sc, W)))]

        return hash_stub


def mk_arr(state, name, dtype, shape, zero=False):
    n = 1
    for d in shape:
        n *= d
    st = Store()
    if zero:
        state.heap[st.id] = tuple(z3.BitVecVal(0, dtype.bitwidth) for _ in range(n))
    else:
        state.heap[st.id] = tuple(z3.BitVec(f"{name}_{i}", dtype.bitwidth) for i in range(n))
    return Arr(st.id, dtype, shape)


def cells(state_or_heap, arr):
    heap = state_or_heap.heap if hasattr(state_or_heap, "heap") else state_or_heap
    return heap[arr.sid]


def select_col(row_cells, col):
    """ite-chain: row_cells[col] for a symbolic column term"""
    t = None
    for w in reversed(range(len(row_cells))):
        t = row_cells[w] if t is None else z3.If(col == w, row_cells[w], t)
    return t


def umin(a, b):
    return z3.If(z3.ULT(a, b), a, b)


def umax(a, b):
    return z3.If(z3.ULT(a, b), b, a)


def cm_est(heap, cms, cols):
    """min over rows of cms[r][cols[r]]"""
    h = heap[cms.sid]
    depth, width = cms.shape
    m = None
    for r in range(depth):
        c = select_col(h[r * width:(r + 1) * width], cols[r])
        m = c if m is None else umin(c, m)
    return m


def zx(t, to):
    return z3.ZeroExt(to - t.size(), t) if t.size() < to else t


def ev(m, t):
    v = m.eval(t, model_completion=True)
    if z3.is_bv_value(v):
        return v.as_long()
    if z3.is_true(v):
        return True
    if z3.is_false(v):
        return False
    return str(v)


def find_keys(fasthash64, width, depth, patterns, min_len=1, max_tries=400000, avoid=()):
    """Concrete byte keys whose real fasthash64(key, row) % width equals the requested per-row columns.
    patterns: list of tuples (col_row0, ..., col_row{depth-1}); returns list of distinct keys (bytes)."""
    want = {}
    for i, p in enumerate(patterns):
        want.setdefault(tuple(p), []).append(i)
    out = [None] * len(patterns)
    used = set(avoid)
    n = 0
    for L in range(min_len, 6):
        for tup in itertools.product(range(1, 256), repeat=L):
            key = bytes(tup)
            n += 1
            if n > max_tries:
                return out
            pat = tuple(int(fasthash64(key, r)) % width for r in range(depth))
            lst = want.get(pat)
            if lst and key not in used:
                out[lst.pop(0)] = key
                used.add(key)
                if not lst:
                    del want[pat]
                if not want:
                    return out
    return out
