"""Runs a check script and maps any unexpected exception of the harness itself to exit code 2 (inconclusive / harness
error).  Exit 1 is reserved for a replayed VIOLATION printed by engine.common.finish."""
import runpy
import sys
import traceback


def main():
    import os
    path = sys.argv[1]
    sys.argv = sys.argv[1:]
    sys.path[0] = os.path.dirname(os.path.abspath(path))      # what running the script directly would have put there
    try:
        runpy.run_path(path, run_name="__main__")
        code = 0
    except SystemExit as e:
        code = e.code if isinstance(e.code, int) else (0 if e.code is None else 2)
    except BaseException:
        traceback.print_exc()
        print(f"HARNESS-ERROR: {path} raised outside an obligation; nothing is claimed by this run (exit 2)", file=sys.stderr)
        code = 2
    sys.exit(code)


if __name__ == "__main__":
    main()
