"""Log-counter (log16/log8) count-min harnesses for engine K: one-step add, _log_counter lemmas, replays, validation."""
import random
import struct
import z3
import numpy as np
from engine import common, cmh
from engine.kit import KeyBook, mk_arr, cm_est, zx, ev, select_col, find_keys
from engine.nbsym import (Executor, State, SBytes, Val, Arr, Store, types, cast, mk_int, Unsupported, FPS, RM)

CONFIGS = {
    8: [(4294967295, 15), (300, 0), (1000, 7), (1 << 63, 200)],
    16: [(4294967295, 1023), (70000, 0), (1000000, 100)],
}
UMAX = {8: 255, 16: 65535}
C05_BOUNDS = {
    "quick": {"contract_shapes(width,depth)": [(1, 1), (2, 2), (3, 2), (2, 3), (3, 3)], "v": [0, 1], "configs(max_count,num_reserved)": {k: v[:2] for k, v in CONFIGS.items()}},
    "thorough": {"contract_shapes(width,depth)": [(w, d) for w in (1, 2, 3, 4) for d in (1, 2, 3)] + [(1, 4), (2, 4), (8, 2)], "deep_shapes_cell_level_only": [(3, 4), (4, 4), (2, 8), (4, 8), (8, 8)],
                 "v": [0, 1, 2, 3], "configs(max_count,num_reserved)": CONFIGS},
}


def real_base(bits, cfg):
    C = cmh.cm()
    return float(C._find_base(np.uint64(cfg[0]), np.uint32(cfg[1]), np.uint32(UMAX[bits])))


class Draws:
    """Model of the random batch during one kernel call: the j-th draw consumed is D[j]; the pointer counts draws.
    (The real _rand returns batch[ptr] and ptr+1 while ptr < 2048; its own behaviour incl. the refill is C06's subject.)"""

    def __init__(self, n, prefix="draw", values=None):
        self.d = [z3.FP(f"{prefix}{j}", FPS) for j in range(n)] if values is None else [z3.FPVal(x, FPS) for x in values]
        self.constraints = [z3.And(z3.fpGEQ(x, z3.FPVal(0.0, FPS)), z3.fpLT(x, z3.FPVal(1.0, FPS))) for x in self.d]
        self.overrun = []

    def stub(self):
        me = self

        def rand_stub(ex, state, args, sig):
            batch, ptr = args
            ptr = cast(ptr, types.uint64)
            t = me.d[-1]
            for j in reversed(range(len(me.d) - 1)):
                t = z3.If(ptr.t == j, me.d[j], t)
            state.oblig.append(("draws-overrun", z3.And(*state.pc, z3.UGE(ptr.t, len(me.d)))))
            return [(state, (Val(types.float64, t), Val(types.uint64, z3.simplify(ptr.t + 1))))]

        return rand_stub


def pow_apps(terms):
    acc = {}

    def walk(t):
        if t.get_id() in seen:
            return
        seen.add(t.get_id())
        if z3.is_app(t):
            if t.decl().name() == "pow":
                acc[t.get_id()] = t
            for c in t.children():
                walk(c)

    seen = set()
    for t in terms:
        walk(t)
    return list(acc.values())


def pow_axioms(apps):
    """IEEE-sound: pow(x, +-0) == 1.0 for every x (C99 / IEEE 754-2008)."""
    return [z3.Implies(z3.fpIsZero(a.arg(1)), a == z3.FPVal(1.0, FPS)) for a in apps]


def f64(m, t):
    v = m.eval(z3.fpToIEEEBV(t), model_completion=True)
    return struct.unpack("<d", struct.pack("<Q", v.as_long()))[0]


def host_pow(b, x):
    with np.errstate(all="ignore"):
        return float(np.float64(b) ** np.float64(x))


def check_with_pow_refinement(assertions, terms_for_apps, timeout_ms, stats, label, rounds=8):
    """sat only if the model's values for every pow application agree with the host's pow (CEGAR on the uninterpreted
    pow); unsat is a proof for any pow satisfying the axioms."""
    apps = pow_apps(list(assertions) + list(terms_for_apps))
    extra = pow_axioms(apps)
    for _ in range(rounds):
        r, m = common.z3check(list(assertions) + extra, timeout_ms, stats, label=label)
        if r != "sat":
            return r, m
        pins = []
        for a in apps:
            b, x, got = f64(m, a.arg(0)), f64(m, a.arg(1)), f64(m, a)
            real = host_pow(b, x)
            if not (got == real or (got != got and real != real)):
                pins.append(z3.Implies(z3.And(z3.fpEQ(a.arg(0), z3.FPVal(b, FPS)), z3.fpEQ(a.arg(1), z3.FPVal(x, FPS))), a == z3.FPVal(real, FPS)))
        if not pins:
            return r, m
        extra += pins
    return "unknown", None


# ------------------------------------------------------------------------------------------- one-step add
def log_harness(bits, width, depth, cfg, v):
    C = cmh.cm()
    book = KeyBook()
    draws = Draws(max(1, v))
    ex = Executor(stubs={"fasthash64": book.stub(), "_rand": draws.stub()}, loop_bound=v + 2)
    st = State()
    sk = cmh.SymCM(st, "s", bits, width, depth)
    key, kid = book.new_key("key")
    other, oid = book.new_key("other", 2)
    rn = mk_arr(st, "rn", types.uint64, (1,))  # placeholder; _rand is stubbed
    base = real_base(bits, cfg)
    pre = dict(st.heap)
    U = cmh.U[bits]
    disp = C._add_log16 if bits == 16 else C._add_log8
    args = [sk.cms, sk.nar, sk.bk, mk_int(types.uint64, width), mk_int(types.uint64, depth), mk_int(U, UMAX[bits]),
            mk_int(U, cfg[1]), Val(types.float64, z3.FPVal(base, FPS)), rn, mk_int(types.uint64, 0), key, mk_int(types.uint64, v)]
    post, ret = cmh.run1(ex, disp, st, args)
    colk = cmh.keycols(book, kid, width, depth)
    colo = cmh.keycols(book, oid, width, depth)
    return dict(book=book, ex=ex, sk=sk, pre=pre, post=post, ret=ret, colk=colk, colo=colo, draws=draws, base=base, cfg=cfg, v=v, bits=bits)


def log_clauses(h):
    sk, pre, post, colk, colo, v, bits, cfg = h["sk"], h["pre"], h["post"], h["colk"], h["colo"], h["v"], h["bits"], h["cfg"]
    old_k, old_o = cm_est(pre, sk.cms, colk), cm_est(pre, sk.cms, colo)
    new_k, new_o = cm_est(post.heap, sk.cms, colk), cm_est(post.heap, sk.cms, colo)
    z = lambda x: zx(x, 64)
    nr = cfg[1]
    cl = [
        ("key's smallest counter advances by between 0 and v", z3.And(z3.UGE(new_k, old_k), z3.ULE(z(new_k) - z(old_k), v))),
        ("advance is exactly v while the result <= num_reserved+1", z3.Implies(z3.ULE(z(old_k) + v, nr + 1), z(new_k) == z(old_k) + v)),
        ("other key's smallest counter never decreases", z3.UGE(new_o, old_o)),
        ("other key's smallest counter <= max(own old, key's new)", z3.ULE(new_o, z3.If(z3.UGT(old_o, new_k), old_o, new_k))),
        ("n_added += v", post.heap[sk.nar.sid][0] == pre[sk.nar.sid][0] + v),
        ("n_records untouched", post.heap[sk.nar.sid][1] == pre[sk.nar.sid][1]),
        ("a counter at the ceiling stays there", z3.Implies(old_k == UMAX[bits], new_k == UMAX[bits])),
    ]
    w, d = sk.width, sk.depth
    per, spec = [], []
    for r in range(d):
        for c in range(w):
            oldc, newc = pre[sk.cms.sid][r * w + c], post.heap[sk.cms.sid][r * w + c]
            per.append(z3.Or(newc == oldc, colk[r] == c))
            spec.append(newc == z3.If(z3.And(colk[r] == c, z3.ULT(oldc, new_k)), new_k, oldc))
    cl.append(("only the key's own counter may change in each row", z3.And(*per)))
    cl.append(("cell-level spec: cell' = max(cell, new smallest counter) at the key's column", z3.And(*spec)))
    # returned pointer = number of draws consumed <= v
    cl.append(("returned rand_ptr <= v (at most one draw per unit added)", z3.ULE(h["ret"].t, v)))
    return cl


def ob_log_step(bits, width, depth, cfg, v, timeout_ms):
    stats = common.Stats()
    h = log_harness(bits, width, depth, cfg, v)
    post = h["post"]
    assume = list(post.pc) + h["book"].range_constraints() + h["draws"].constraints
    clauses = log_clauses(h)
    for i, (kind, cond) in enumerate(cmh.safety_goals(post)):
        clauses.append((f"safety[{i}] {kind}", z3.Not(cond)))
    funcs = sorted(h["ex"].funcs_encoded)
    for name, prop in clauses:
        r, m = check_with_pow_refinement(assume + [z3.Not(prop)], [], timeout_ms, stats, f"_add_log{bits} {depth}x{width} cfg={cfg} v={v}: {name}")
        if r == "unsat":
            continue
        if r != "sat":
            return {"status": "unknown", "stats": stats.as_dict(), "funcs": funcs, "note": f"z3 {r} on: {name}"}
        sk = h["sk"]
        cex = {"kind": "log-step", "bits": bits, "width": width, "depth": depth, "max_count": cfg[0], "num_reserved": cfg[1], "clause": name,
               "table": [ev(m, c) for c in h["pre"][sk.cms.sid]], "n_added": ev(m, h["pre"][sk.nar.sid][0]), "n_records": ev(m, h["pre"][sk.nar.sid][1]),
               "col_key": [ev(m, c) for c in h["colk"]], "col_other": [ev(m, c) for c in h["colo"]], "value": v,
               "draws": [f64(m, d) for d in h["draws"].d]}
        rp = replay_log_step(cex)
        return {"status": "cex", "stats": stats.as_dict(), "funcs": funcs, "cex": cex, "replay": rp, "finding_key": f"log{bits}-step:" + name[:30]}
    return {"status": "proved", "stats": stats.as_dict(), "funcs": funcs}


def make_real_log(bits, width, depth, max_count, num_reserved):
    """real log sketch for a replay.  A model's (max_count, num_reserved) pair need not be a configuration the constructor
    accepts (it refuses pairs for which it finds no base): keep num_reserved -- the replays depend on it -- and fall back
    to other max_count values until one is accepted"""
    C = cmh.cm()
    cls = C.CountMinLog16 if bits == 16 else C.CountMinLog8
    last = None
    for mc in (max_count, 2 ** 32 - 1, 10 ** 6, 2 * (num_reserved + 1) + 1000, num_reserved + 300, num_reserved + 10, num_reserved + 3):
        try:
            return cls(width, depth, mc, num_reserved)
        except ValueError as e:
            last = e
    raise last


def replay_log_step(cex):
    bits, w, d, v = cex["bits"], cex["width"], cex["depth"], cex["value"]
    keys = cmh.realise_keys(w, d, [cex["col_key"], cex["col_other"]])
    if keys is None:
        return {"reproduced": False, "how": "could not find concrete keys for the column pattern"}
    k, o = keys
    sk = make_real_log(bits, w, d, cex["max_count"], cex["num_reserved"])
    sk.cms[:] = np.array(cex["table"], dtype=sk.cms.dtype).reshape(d, w)
    sk.n_added_records[:] = np.array([cex.get("n_added", 0), cex.get("n_records", 0)], dtype=np.uint64)
    for j, x in enumerate(cex["draws"]):
        sk.rand_nums[j] = x
    sk.rand_ptr = 0
    before = sk.cms.copy()
    mn = lambda tab, cols: min(int(tab[r, cols[r]]) for r in range(d))
    old_k, old_o = mn(before, cex["col_key"]), mn(before, cex["col_other"])
    q_old_k, q_old_o = float(sk.query(k)), float(sk.query(o))
    na0, nr0 = int(sk.n_added()), int(sk.n_records())
    sk.add(k, v)
    after = sk.cms.copy()
    new_k, new_o = mn(after, cex["col_key"]), mn(after, cex["col_other"])
    q_new_k, q_new_o = float(sk.query(k)), float(sk.query(o))
    na1, nr1 = int(sk.n_added()), int(sk.n_records())
    nres = cex["num_reserved"]
    fails = []
    if not (0 <= new_k - old_k <= v):
        fails.append(f"smallest counter moved {old_k}->{new_k}, not within 0..{v} steps")
    if old_k + v <= nres + 1 and (new_k != old_k + v or q_new_k != q_old_k + v):
        fails.append(f"reserved range: counter {old_k}->{new_k}, estimate {q_old_k}->{q_new_k}, expected exactly +{v}")
    if new_o < old_o or q_new_o < q_old_o:
        fails.append(f"other key's estimate decreased ({old_o}->{new_o})")
    if new_o > max(old_o, new_k):
        fails.append(f"other key's counter {new_o} above max(own old {old_o}, key's new {new_k})")
    changed = [int((before[r] != after[r]).sum()) for r in range(d)]
    if any(n > 1 for n in changed):
        fails.append(f"more than one counter changed in a row: {changed}")
    if (na1 - na0) % (1 << 64) != v:
        fails.append(f"n_added grew by {na1 - na0}, expected {v}")
    if nr1 != nr0:
        fails.append("n_records changed")
    if old_k == UMAX[bits] and new_k != old_k:
        fails.append("counter at the ceiling moved")
    return {"reproduced": bool(fails), "how": f"CountMinLog{bits}({w},{d},{cex['max_count']},{cex['num_reserved']}); cms[:], rand_nums[:v], rand_ptr=0 installed; add(key, v) through the public API",
            "keys": [k.hex(), o.hex()], "observed": {"old_counters": [old_k, old_o], "new_counters": [new_k, new_o], "n_added": [na0, na1]}, "failed_clauses": fails}


# ------------------------------------------------------------------------------------------- _log_counter lemma
def ob_log_counter_lemma(umax, V, timeout_ms):
    """_log_counter from an arbitrary counter / num_reserved / base, value <= V (symbolic), unwinding assertion included."""
    C = cmh.cm()
    stats = common.Stats()
    draws = Draws(V)
    ex = Executor(stubs={"_rand": draws.stub()}, loop_bound=V + 1)
    st = State()
    counter, nr, value = z3.BitVec("counter", 16), z3.BitVec("nr", 16), z3.BitVec("value", 64)
    base = z3.FP("base", FPS)
    rn = mk_arr(st, "rn", types.uint64, (1,))
    st.pc += [z3.ULE(value, V), z3.ULT(nr, umax), z3.ULE(counter, umax), z3.fpGT(base, z3.FPVal(1.0, FPS)), z3.Not(z3.fpIsInf(base)), z3.Not(z3.fpIsNaN(base))]
    outs = ex.call_dispatcher(C._log_counter, st, [Val(types.uint16, counter), Val(types.uint16, nr), mk_int(types.uint16, umax), Val(types.float64, base), rn, mk_int(types.uint64, 0), Val(types.uint64, value)])
    funcs = sorted(ex.funcs_encoded)
    if len(outs) != 1:
        return {"status": "unknown", "note": f"{len(outs)} outcomes", "funcs": funcs}
    post, rv = outs[0]
    newc, newp = rv[0].t, rv[1].t
    z = lambda x: zx(x, 64)
    cprime = z3.fpSub(RM, z3.fpUnsignedToFP(RM, counter, FPS), z3.fpUnsignedToFP(RM, nr, FPS))
    from engine.nbsym import Executor as _E
    thr = _E.POW(base, z3.fpNeg(cprime))
    cl = [
        ("advance between 0 and v", z3.And(z3.UGE(newc, counter), z3.ULE(z(newc) - z(counter), value))),
        ("never beyond the ceiling (no wrap)", z3.ULE(newc, umax)),
        ("at the ceiling: unchanged", z3.Implies(counter == umax, newc == counter)),
        ("exactly +v while the result <= num_reserved+1", z3.Implies(z3.ULE(z(counter) + value, z(nr) + 1), z(newc) == z(counter) + value)),
        ("the deterministic phase is completed: c + v > num_reserved+1 => result >= num_reserved+1", z3.Implies(z3.UGT(z(counter) + value, z(nr) + 1), z3.UGE(z(newc), z(nr) + 1))),
        ("draws consumed <= v", z3.ULE(newp, value)),
        ("v == 1 above the reserved range: increment iff draw0 < pow(base, -(float(c) - float(num_reserved)))",
         z3.Implies(z3.And(value == 1, z3.UGE(counter, nr), z3.ULT(counter, umax)), (newc == counter + 1) == z3.fpLT(draws.d[0], thr))),
        ("v == 1 above the reserved range: exactly one draw consumed", z3.Implies(z3.And(value == 1, z3.UGE(counter, nr), z3.ULT(counter, umax)), newp == 1)),
        ("inside the reserved range no draw is consumed", z3.Implies(z3.ULE(z(counter) + value, z(nr)), newp == 0)),
    ]
    assume = list(post.pc) + draws.constraints
    for i, (kind, cond) in enumerate(cmh.safety_goals(post)):
        cl.append((f"safety[{i}] {kind}", z3.Not(cond)))
    for name, prop in cl:
        apps = pow_apps(assume + [prop])
        r, m = common.z3check(assume + pow_axioms(apps) + [z3.Not(prop)], timeout_ms, stats, label=f"_log_counter umax={umax} v<={V}: {name}")
        if r == "unsat":
            continue
        if r == "sat":
            cex = {"kind": "log-counter", "umax": umax, "clause": name, "counter": ev(m, counter), "num_reserved": ev(m, nr), "value": ev(m, value),
                   "base": f64(m, base), "draws": [f64(m, d) for d in draws.d]}
            rp = replay_log_counter(cex)
            return {"status": "cex", "stats": stats.as_dict(), "funcs": funcs, "cex": cex, "replay": rp, "finding_key": "log-counter:" + name[:30]}
        return {"status": "unknown", "stats": stats.as_dict(), "funcs": funcs, "note": f"z3 {r} on: {name}"}
    return {"status": "proved", "stats": stats.as_dict(), "funcs": funcs}


def replay_log_counter(cex):
    """Real jitted _log_counter on the concrete arguments (kernel-level replay: the lemma is about the kernel)."""
    C = cmh.cm()
    rn = np.zeros(2048, np.float64)
    for j, x in enumerate(cex["draws"]):
        rn[j] = x
    c, nr, v, umax = cex["counter"], cex["num_reserved"], cex["value"], cex["umax"]
    newc, newp = C._log_counter(np.uint16(c), np.uint16(nr), np.uint16(umax), np.float64(cex["base"]), rn, np.uint64(0), np.uint64(v))
    newc, newp = int(newc), int(newp)
    fails = []
    if not (0 <= newc - c <= v):
        fails.append(f"counter {c}->{newc} not within 0..{v}")
    if newc > umax:
        fails.append("beyond ceiling")
    if c == umax and newc != c:
        fails.append("moved at ceiling")
    if c + v <= nr + 1 and newc != c + v:
        fails.append(f"reserved range not exact: {c}+{v} -> {newc}")
    if newp > v:
        fails.append(f"{newp} draws for v={v}")
    if v == 1 and nr <= c < umax:
        thr = host_pow(cex["base"], -(float(c) - float(nr)))
        if (newc == c + 1) != (cex["draws"][0] < thr):
            fails.append(f"increment decision differs from draw {cex['draws'][0]} < base**-(c-nr) = {thr}")
        if newp != 1:
            fails.append(f"{newp} draws consumed, expected 1")
    if c + v <= nr and newp != 0:
        fails.append("draw consumed inside the reserved range")
    return {"reproduced": bool(fails), "how": "sketchnu.countmin._log_counter (jitted) on the concrete arguments", "observed": {"counter": newc, "rand_ptr": newp}, "failed_clauses": fails}


# ------------------------------------------------------------------------------------------- add step, modular
class CounterContract:
    """Summary of _log_counter used when checking the add kernels modularly.  Every clause is discharged against the
    real _log_counter by ob_log_counter_lemma (loop body, symbolic counter / num_reserved / base) and by the
    configuration-concrete unrollings; here the callee is replaced by `some result satisfying the contract`."""

    def __init__(self):
        self.calls = []

    def stub(self):
        me = self

        def lc_stub(ex, state, args, sig):
            counter, nr, umax, base, rn, ptr, value = args
            c = cast(counter, types.uint16).t
            n = cast(nr, types.uint16).t
            u = cast(umax, types.uint16).t
            v = cast(value, types.uint64).t
            k = len(me.calls)
            newc = z3.BitVec(f"lc_new{k}", 16)
            newp = z3.BitVec(f"lc_ptr{k}", 64)
            z = lambda x: zx(x, 64)
            con = z3.And(z3.UGE(newc, c), z3.ULE(z(newc) - z(c), v), z3.Implies(z3.ULE(z(c) + v, z(n) + 1), z(newc) == z(c) + v),
                         z3.Implies(z3.ULE(c, u), z3.ULE(newc, u)),
                         z3.Implies(z3.UGT(z(c) + v, z(n) + 1), z3.UGE(z(newc), z(n) + 1)))   # the deterministic phase is completed
            state.pc.append(con)
            me.calls.append(dict(counter=c, new=newc, value=v, nr=n, umax=u))
            return [(state, (Val(types.uint16, newc), Val(types.uint64, newp)))]

        return lc_stub


def log_contract_harness(bits, width, depth):
    C = cmh.cm()
    book = KeyBook()
    contract = CounterContract()
    ex = Executor(stubs={"fasthash64": book.stub(), "_log_counter": contract.stub()})
    st = State()
    sk = cmh.SymCM(st, "s", bits, width, depth)
    key, kid = book.new_key("key")
    other, oid = book.new_key("other", 2)
    rn = mk_arr(st, "rn", types.uint64, (1,))
    U = cmh.U[bits]
    nr = z3.BitVec("num_reserved", bits)
    v = z3.BitVec("value", 64)
    base = z3.FP("base", FPS)
    st.pc.append(z3.ULT(nr, UMAX[bits]))
    pre = dict(st.heap)
    disp = C._add_log16 if bits == 16 else C._add_log8
    args = [sk.cms, sk.nar, sk.bk, mk_int(types.uint64, width), mk_int(types.uint64, depth), mk_int(U, UMAX[bits]),
            Val(U, nr), Val(types.float64, base), rn, Val(types.uint64, z3.BitVec("ptr0", 64)), key, Val(types.uint64, v)]
    post, ret = cmh.run1(ex, disp, st, args)
    colk = cmh.keycols(book, kid, width, depth)
    colo = cmh.keycols(book, oid, width, depth)
    return dict(book=book, ex=ex, sk=sk, pre=pre, post=post, ret=ret, colk=colk, colo=colo, contract=contract, nr=nr, v=v, bits=bits)


def log_contract_clauses(h):
    sk, pre, post, colk, colo, v, bits, nr = h["sk"], h["pre"], h["post"], h["colk"], h["colo"], h["v"], h["bits"], h["nr"]
    old_k, old_o = cm_est(pre, sk.cms, colk), cm_est(pre, sk.cms, colo)
    new_k, new_o = cm_est(post.heap, sk.cms, colk), cm_est(post.heap, sk.cms, colo)
    z = lambda x: zx(x, 64)
    calls = h["contract"].calls
    cl = [
        ("_log_counter is called exactly once, on the key's smallest counter, with the add's multiplicity",
         z3.BoolVal(len(calls) == 1) if len(calls) != 1 else z3.And(zx(old_k, 16) == calls[0]["counter"], calls[0]["value"] == v, calls[0]["nr"] == zx(nr, 16), calls[0]["umax"] == UMAX[bits])),
        ("key's smallest counter advances by between 0 and v", z3.And(z3.UGE(new_k, old_k), z3.ULE(z(new_k) - z(old_k), v))),
        ("key's new smallest counter is the value _log_counter returned", zx(new_k, 16) == calls[0]["new"] if len(calls) == 1 else z3.BoolVal(False)),
        ("advance is exactly v while the result <= num_reserved+1", z3.Implies(z3.ULE(z(old_k) + v, z(nr) + 1), z(new_k) == z(old_k) + v)),
        ("other key's smallest counter never decreases", z3.UGE(new_o, old_o)),
        ("other key's smallest counter <= max(own old, key's new)", z3.ULE(new_o, z3.If(z3.UGT(old_o, new_k), old_o, new_k))),
        ("n_added += v", post.heap[sk.nar.sid][0] == pre[sk.nar.sid][0] + v),
        ("n_records untouched", post.heap[sk.nar.sid][1] == pre[sk.nar.sid][1]),
        ("a counter at the ceiling stays there", z3.Implies(old_k == UMAX[bits], new_k == UMAX[bits])),
    ]
    w, d = sk.width, sk.depth
    per, spec = [], []
    for r in range(d):
        for c in range(w):
            oldc, newc = pre[sk.cms.sid][r * w + c], post.heap[sk.cms.sid][r * w + c]
            per.append(z3.Or(newc == oldc, colk[r] == c))
            spec.append(newc == z3.If(z3.And(colk[r] == c, z3.ULT(oldc, new_k)), new_k, oldc))
    for r in range(d):
        cl.append((f"row {r}: only the key's own counter may change", z3.And(*per[r * w:(r + 1) * w])))
        cl.append((f"row {r}: cell-level spec: cell' = max(cell, new smallest counter) at the key's column", z3.And(*spec[r * w:(r + 1) * w])))
    return cl


def ob_log_add_contract(bits, width, depth, timeout_ms, cells_only=False):
    stats = common.Stats()
    h = log_contract_harness(bits, width, depth)
    post = h["post"]
    assume = list(post.pc) + h["book"].range_constraints()
    clauses = log_contract_clauses(h)
    if cells_only:
        clauses = [c for c in clauses if c[0].startswith("row ") or c[0].startswith("n_") or c[0].startswith("_log_counter is called") or c[0].startswith("key's new smallest")]
    for i, (kind, cond) in enumerate(cmh.safety_goals(post)):
        clauses.append((f"safety[{i}] {kind}", z3.Not(cond)))
    funcs = sorted(h["ex"].funcs_encoded)
    r, info = cmh.first_failure(assume, clauses, timeout_ms, stats, f"_add_log{bits} {depth}x{width} (callee contract)")
    if r is None:
        return {"status": "proved", "stats": stats.as_dict(), "funcs": funcs}
    if r == "unknown":
        return {"status": "unknown", "stats": stats.as_dict(), "funcs": funcs, "note": f"z3 unknown on: {info}"}
    name, m = info
    # prefer a model that can be replayed through the public API: num_reserved of a real configuration, small v
    prop = dict(clauses)[name]
    nrs = [c[1] for c in CONFIGS[bits]]
    r2, m2 = common.z3check(assume + [z3.Not(prop), z3.Or(*[h["nr"] == x for x in nrs]), z3.ULE(h["v"], 1 << 22)], timeout_ms, stats, label="replayable model")
    if r2 == "sat":
        m = m2
    sk = h["sk"]
    calls = h["contract"].calls
    nrv = ev(m, h["nr"])
    cfg = next((c for c in CONFIGS[bits] if c[1] == nrv), (4294967295, nrv))
    cex = {"kind": "log-step", "bits": bits, "width": width, "depth": depth, "max_count": cfg[0], "num_reserved": nrv, "clause": name,
           "table": [ev(m, c) for c in h["pre"][sk.cms.sid]], "n_added": ev(m, h["pre"][sk.nar.sid][0]), "n_records": ev(m, h["pre"][sk.nar.sid][1]),
           "col_key": [ev(m, c) for c in h["colk"]], "col_other": [ev(m, c) for c in h["colo"]], "value": ev(m, h["v"])}
    if calls:
        c0, c1 = ev(m, calls[0]["counter"]), ev(m, calls[0]["new"])
        k = max(0, c1 - c0)
        vv = ev(m, calls[0]["value"])
        cex["draws"] = ([0.0] * k + [0.9999999999999999] * max(0, min(vv, 2000) - k))[:2048]
        cex["callee"] = {"counter": c0, "returned": c1, "value": vv}
    else:
        cex["draws"] = [0.0] * 4
    try:
        rp = replay_log_step(cex) if cex["value"] <= (1 << 24) else {"reproduced": False, "how": "multiplicity too large to replay"}
    except Exception as e:  # e.g. constructor rejects the configuration
        rp = {"reproduced": False, "how": f"replay raised {type(e).__name__}: {e}"}
    return {"status": "cex", "stats": stats.as_dict(), "funcs": funcs, "cex": cex, "replay": rp, "finding_key": f"log{bits}-step:" + name[:30]}


# ------------------------------------------------------------------------------------------- obligations for C05
def c05_obligations(tier):
    b = C05_BOUNDS[tier]
    tmo = 900000 if tier == "quick" else 1800000
    obs = []
    for bits in (8, 16):
        for (w, d) in b["contract_shapes(width,depth)"]:
            obs.append(common.Ob(f"log{bits} add step (callee contract), width {w} depth {d}", ob_log_add_contract, (bits, w, d, tmo), hard_s=tmo / 1000 * 12 + 120,
                                 bounds={"bits": bits, "width": w, "depth": d, "num_reserved": "symbolic", "v": "all uint64", "table": "arbitrary"}))
        for (w, d) in b.get("deep_shapes_cell_level_only", []):
            obs.append(common.Ob(f"log{bits} add step (callee contract, cell-level clauses), width {w} depth {d}", ob_log_add_contract, (bits, w, d, tmo, True), hard_s=tmo / 1000 * 12 + 120,
                                 bounds={"bits": bits, "width": w, "depth": d, "clauses": "cell-level"}))
        for cfg in b["configs(max_count,num_reserved)"][bits]:
            for v in b["v"]:
                obs.append(common.Ob(f"log{bits} add end-to-end (real _log_counter inlined), 1x1, cfg {cfg}, v={v}", ob_log_step, (bits, 1, 1, tuple(cfg), v, tmo),
                                     hard_s=tmo / 1000 * 12 + 120, bounds={"bits": bits, "width": 1, "depth": 1, "config": list(cfg), "v": v}))
    for umax in (255, 65535):
        obs.append(common.Ob(f"_log_counter contract (loop body): ceiling {umax}, v<=1, symbolic counter/num_reserved/base", ob_log_counter_lemma, (umax, 1, tmo), hard_s=tmo / 1000 * 10 + 120,
                             bounds={"uint_maxval": umax, "value": "<=1 (loop body)", "counter,num_reserved,base": "symbolic"}))
    return obs


# ------------------------------------------------------------------------------------------- translator validation
def validate_translator(seed, n):
    """Concrete differential: real jitted _add_linear/_add_log16/_add_log8 vs the interpreter on constants."""
    rnd = random.Random(seed + 17)
    C = cmh.cm()
    H = cmh.hashes()
    bad = []
    cnt = 0
    for _ in range(n):
        bits = rnd.choice([32, 16, 8])
        w, d = rnd.randrange(1, 4), rnd.randrange(1, 4)
        key = bytes(rnd.randrange(256) for _ in range(rnd.randrange(0, 6)))
        hi = (1 << bits) - 1
        tab = [rnd.choice([0, 1, 2, hi, hi - 1, rnd.randrange(hi + 1)]) for _ in range(w * d)]
        cols = [int(H.fasthash64(key, r)) % w for r in range(d)]
        book = KeyBook()
        st = State()
        sk = cmh.SymCM(st, "s", bits, w, d, zero=True)
        st.heap[sk.cms.sid] = tuple(z3.BitVecVal(x, bits) for x in tab)
        sb = SBytes([z3.BitVecVal(b, 8) for b in key])
        kid = book.register(sb, "key")
        for r in range(d):
            bitsw = max(1, (w - 1).bit_length())
            book.cols[(kid, r, w)] = (z3.BitVecVal(cols[r], bitsw), None)
        if bits == 32:
            v = rnd.choice([0, 1, 2, hi, hi - 1, rnd.randrange(hi + 1)])
            ex = Executor(stubs={"fasthash64": book.stub()})
            post = cmh.add_linear(ex, st, sk, sb, z3.BitVecVal(v, 32))
            real = C.CountMinLinear(w, d)
            real.cms[:] = np.array(tab, np.uint32).reshape(d, w)
            # the jitted kernel itself (the wrapper's cap is a separate, engine-W obligation)
            C._add_linear(real.cms, real.n_added_records, real.buckets, real.width, real.depth, real.uint_maxval, key, np.uint32(v))
            got_real = [int(x) for x in real.cms.flatten()] + [int(real.n_added())]
        else:
            cfg = rnd.choice(CONFIGS[bits])
            v = rnd.randrange(0, 4)
            dr = [rnd.random() if rnd.random() < 0.7 else rnd.choice([0.0, 0.999999999]) for _ in range(4)]
            draws = Draws(4, values=dr)
            ex = Executor(stubs={"fasthash64": book.stub(), "_rand": draws.stub()}, loop_bound=8)
            base = real_base(bits, cfg)
            rn = mk_arr(st, "rn", types.uint64, (1,))
            U = cmh.U[bits]
            disp = C._add_log16 if bits == 16 else C._add_log8
            args = [sk.cms, sk.nar, sk.bk, mk_int(types.uint64, w), mk_int(types.uint64, d), mk_int(U, UMAX[bits]), mk_int(U, cfg[1]),
                    Val(types.float64, z3.FPVal(base, FPS)), rn, mk_int(types.uint64, 0), sb, mk_int(types.uint64, v)]
            post, ret = cmh.run1(ex, disp, st, args)
            real = make_real_log(bits, w, d, cfg[0], cfg[1])
            real.cms[:] = np.array(tab, real.cms.dtype).reshape(d, w)
            for j, x in enumerate(dr):
                real.rand_nums[j] = x
            real.rand_ptr = 0
            kern = C._add_log16 if bits == 16 else C._add_log8
            kern(real.cms, real.n_added_records, real.buckets, real.width, real.depth, real.uint_maxval, real.num_reserved, real.base, real.rand_nums, np.uint64(0), key, np.uint64(v))
            got_real = [int(x) for x in real.cms.flatten()] + [int(real.n_added())]
        got_sym = []
        for c in list(post.heap[sk.cms.sid]) + [post.heap[sk.nar.sid][0]]:
            s = z3.simplify(c)
            got_sym.append(s.as_long() if z3.is_bv_value(s) else str(s)[:60])
        cnt += 1
        if got_sym != got_real:
            bad.append({"bits": bits, "w": w, "d": d, "key": key.hex(), "table": tab, "v": v, "real": got_real, "interp": got_sym})
    return {"n": cnt, "n_mismatch": len(bad), "mismatches": bad[:3],
            "what": "real jitted add (linear/log16/log8, draws installed in rand_nums) vs the symbolic interpreter on constant inputs"}
