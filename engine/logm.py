"""Log-counter merge (_merge_log16/_merge_log8, _counter2value) harnesses for engine K.

IEEE mode: float64 as z3 Float64, `**` and np.log uninterpreted -> facts that hold for ANY pow/log (argument untouched,
bookkeeping, symmetry, exactness in the reserved range, saturation branch, merge with an empty cell in the reserved
range).  Real-idealised mode (engine/realmode.py): floats as reals, pow/log with their algebraic laws -> 'the re-encoded
counter is the nearest one, ties down', 'empty is the identity', 'never below either input'."""
import math
import z3
import numpy as np
from engine import common, cmh, logh
from engine.kit import mk_arr, zx, ev
from engine.nbsym import (Executor, State, Val, types, cast, mk_int, Unsupported, FPS, RM)

UMAX = logh.UMAX
CONFIGS = logh.CONFIGS


def merge_harness(bits, cfg, width=1, depth=1, base_sym=False, reserved_only=False):
    C = cmh.cm()
    ex = Executor(loop_bound=300)
    st = State()
    a = cmh.SymCM(st, "a", bits, width, depth)
    b = cmh.SymCM(st, "b", bits, width, depth)
    if reserved_only:
        # specialise the run to cells whose sum stays in the reserved range: every float is then an exact integer and the
        # interpreter decides comparisons/casts in bit-vector arithmetic
        for x, y in zip(st.heap[a.cms.sid], st.heap[b.cms.sid]):
            st.pc.append(z3.ULE(zx(x, 32) + zx(y, 32), cfg[1]))
    U = cmh.U[bits]
    base = z3.FP("base", FPS) if base_sym else z3.FPVal(logh.real_base(bits, cfg), FPS)
    if base_sym:
        st.pc += [z3.fpGT(base, z3.FPVal(1.0, FPS)), z3.Not(z3.fpIsInf(base)), z3.Not(z3.fpIsNaN(base))]
    pre = dict(st.heap)
    disp = C._merge_log16 if bits == 16 else C._merge_log8
    args = [a.cms, b.cms, mk_int(types.uint64, width), mk_int(types.uint64, depth), mk_int(types.uint64, cfg[0]), mk_int(U, UMAX[bits]), mk_int(U, cfg[1]),
            Val(types.float64, base), a.nar, b.nar]
    post, _ = cmh.run1(ex, disp, st, args)
    return dict(ex=ex, a=a, b=b, pre=pre, post=post, base=base, cfg=cfg, bits=bits)


def c2v_ref(c, nr, base, bits):
    """reference rendering of the documented decoding under the same uninterpreted pow"""
    u16 = types.uint16
    c16 = zx(c, 16)
    cf = cast(Val(u16, c16), types.float64).t
    cp = cast(Val(u16, z3.simplify(c16 - z3.BitVecVal(nr, 16))), types.float64).t
    powv = Executor.POW(base, cp)
    one = z3.FPVal(1.0, FPS)
    val = z3.simplify(z3.fpAdd(RM, z3.fpDiv(RM, z3.fpSub(RM, powv, one), z3.fpSub(RM, base, one)), cast(Val(u16, z3.BitVecVal(nr, 16)), types.float64).t))
    return z3.If(z3.ULE(c, nr), cf, val)


def ob_merge_fp(bits, cfg, timeout_ms):
    stats = common.Stats()
    h = merge_harness(bits, cfg)
    a, b, pre, post = h["a"], h["b"], h["pre"], h["post"]
    nr, maxc = cfg[1], cfg[0]
    ca, cb, res = pre[a.cms.sid][0], pre[b.cms.sid][0], post.heap[a.cms.sid][0]
    z = lambda x: zx(x, 32)
    v = z3.fpAdd(RM, c2v_ref(ca, nr, h["base"], bits), c2v_ref(cb, nr, h["base"], bits))
    hr = merge_harness(bits, cfg, reserved_only=True)
    res_r = hr["post"].heap[hr["a"].cms.sid][0]
    car, cbr = hr["pre"][hr["a"].cms.sid][0], hr["pre"][hr["b"].cms.sid][0]
    r0, m0 = common.z3check(list(hr["post"].pc) + [z(res_r) != z(car) + z(cbr)], timeout_ms, stats, label=f"_merge_log{bits} cfg={cfg}: inside the reserved range the merged counter is exactly a + b")
    if r0 != "unsat":
        if r0 != "sat":
            return {"status": "unknown", "stats": stats.as_dict(), "funcs": sorted(h["ex"].funcs_encoded), "note": f"{r0} on reserved range"}
        cex = {"kind": "log-merge", "bits": bits, "max_count": maxc, "num_reserved": nr, "clause": "inside the reserved range the merged counter is exactly a + b", "a": ev(m0, car), "b": ev(m0, cbr), "sweep": False}
        return {"status": "cex", "stats": stats.as_dict(), "funcs": sorted(h["ex"].funcs_encoded), "cex": cex, "replay": replay(cex), "finding_key": f"log{bits}-merge:reserved"}
    goals = [("argument sketch unchanged", z3.And(*[x == y for sid in (b.cms.sid, b.nar.sid) for x, y in zip(post.heap[sid], pre[sid])])),
             ("n_added and n_records are the sums", z3.And(post.heap[a.nar.sid][0] == pre[a.nar.sid][0] + pre[b.nar.sid][0], post.heap[a.nar.sid][1] == pre[a.nar.sid][1] + pre[b.nar.sid][1])),
]
    funcs = set(h["ex"].funcs_encoded) | set(hr["ex"].funcs_encoded)
    assume = list(post.pc)
    for name, g in goals:
        apps = logh.pow_apps(assume + [g])
        r, m = common.z3check(assume + logh.pow_axioms(apps) + [z3.Not(g)], timeout_ms, stats, label=f"_merge_log{bits} cfg={cfg}: {name}")
        if r == "unsat":
            continue
        if r != "sat":
            return {"status": "unknown", "stats": stats.as_dict(), "funcs": sorted(funcs), "note": f"{r} on {name}"}
        cex = {"kind": "log-merge", "bits": bits, "max_count": maxc, "num_reserved": nr, "clause": name, "a": ev(m, ca), "b": ev(m, cb),
               "nar_a": [ev(m, x) for x in pre[a.nar.sid]], "nar_b": [ev(m, x) for x in pre[b.nar.sid]]}
        return {"status": "cex", "stats": stats.as_dict(), "funcs": sorted(funcs), "cex": cex, "replay": replay(cex), "finding_key": f"log{bits}-merge:" + name[:24]}
    return {"status": "proved", "stats": stats.as_dict(), "funcs": sorted(funcs)}


# ---------------------------------------------------------------------------------------------- oracle + replay
def py_value(c, nr, base):
    if c <= nr:
        return float(c)
    return (base ** float(c - nr) - 1.0) / (base - 1.0) + float(nr)


def py_merge_oracle(ca, cb, nr, base, maxc, umax, table=None):
    """documented result: exact in the reserved range, ceiling from max_count on, else the counter whose decoded value is
    nearest to the decoded sum (ties down).  Returns the set of acceptable counters (two when the distances differ by
    less than float noise)."""
    val = table if table is not None else [py_value(c, nr, base) for c in range(umax + 1)]
    v = val[ca] + val[cb]
    if v <= nr:
        return {int(v)}
    if v >= maxc:
        return {umax}
    import bisect
    i = bisect.bisect_right(val, v) - 1
    i = max(0, min(i, umax - 1))
    lo, hi = val[i], val[i + 1]
    d_lo, d_hi = v - lo, hi - v
    tol = 1e-9 * max(1.0, abs(v))
    if abs(d_lo - d_hi) <= tol:
        return {i, i + 1}
    return {i} if d_lo < d_hi else {i + 1}


def replay(cex):
    """install the two counters (and, to widen the net, a whole row of neighbours) in real sketches of the configuration,
    merge through the public API and compare with the independent oracle"""
    bits, nr, maxc = cex["bits"], cex["num_reserved"], cex["max_count"]
    umax = UMAX[bits]
    n = umax + 1
    sweep = cex.get("sweep", True)
    width = n if sweep else 1
    try:
        A = logh.make_real_log(bits, width, 1, maxc, nr)
        B = logh.make_real_log(bits, width, 1, maxc, nr)
    except Exception as e:
        return {"reproduced": False, "how": f"constructor rejected the configuration: {e}"}
    base = float(A.base)
    table = [py_value(c, nr, base) for c in range(n)]
    fails = []
    a_vals = [cex["a"]] if not sweep else sorted(set([cex["a"], 0, 1, nr, nr + 1, min(nr + 2, umax), umax - 1, umax, (nr + umax) // 2]))
    for av in a_vals:
        A.cms[:] = np.full((1, width), av, dtype=A.cms.dtype)
        B.cms[:] = (np.arange(width, dtype=np.uint32) if sweep else np.array([cex["b"]])).astype(B.cms.dtype).reshape(1, width)
        A.n_added_records[:] = np.array(cex.get("nar_a", [0, 0]), np.uint64)
        B.n_added_records[:] = np.array(cex.get("nar_b", [0, 0]), np.uint64)
        bbefore = B.cms.copy()
        A.merge(B)
        if (B.cms != bbefore).any() or [int(x) for x in B.n_added_records] != list(cex.get("nar_b", [0, 0])):
            fails.append("merge modified its argument")
        M64 = (1 << 64) - 1
        if [int(x) for x in A.n_added_records] != [(x + y) & M64 for x, y in zip(cex.get("nar_a", [0, 0]), cex.get("nar_b", [0, 0]))]:
            fails.append("bookkeeping is not the sum")
        got = [int(x) for x in A.cms[0]]
        bs = range(width) if sweep else [cex["b"]]
        for j, bv in enumerate(bs):
            ok = py_merge_oracle(av, bv, nr, base, maxc, umax, table)
            if got[j] not in ok:
                fails.append(f"log{bits}(max_count={maxc}, num_reserved={nr}): counter {av} merged with {bv} gives {got[j]}, documented result {sorted(ok)}")
                if len(fails) > 6:
                    break
            if got[j] < max(av, bv) and max(av, bv) not in ok:
                fails.append(f"merged counter {got[j]} below an input ({av}, {bv})")
        if len(fails) > 6:
            break
    return {"reproduced": bool(fails), "how": "real CountMinLog sketches of the configuration; cells installed through public cms[:]; merge() through the public API; oracle = independent python decode table + nearest counter",
            "failed_clauses": fails[:6]}


def c09_obligations(tier):
    from engine import realmode
    tmo = 300000 if tier == "quick" else 1200000
    obs = []
    cfgs = {8: CONFIGS[8][:2], 16: CONFIGS[16][:2]} if tier == "quick" else CONFIGS
    for bits in (8, 16):
        for cfg in cfgs[bits]:
            obs.append(common.Ob(f"log{bits} merge, IEEE mode (uninterpreted pow/log), cfg {cfg}", ob_merge_fp, (bits, tuple(cfg), tmo), hard_s=tmo / 1000 * 7 + 120,
                                 bounds={"bits": bits, "config": list(cfg), "counters": "all pairs (symbolic)"}))
        for grp in range(realmode.N_IDEAL_GROUPS):
            obs.append(common.Ob(f"log{bits} merge, real-idealised lemma group {grp} (bracket / nearest / identity / monotone / ceiling / casts / no wrap)", realmode.ob_merge_ideal, (bits, tmo, grp), hard_s=tmo / 1000 * 3 + 120,
                                 bounds={"bits": bits, "num_reserved, max_count, base": "symbolic (base > 1 real)", "counters": "all pairs (symbolic)"}))
        umax_ = logh.UMAX[bits]
        for pin in ((umax_, 0), (0, umax_), (umax_, umax_), (umax_ - 1, 0), (umax_, 1)):
            for grp in ("never below either input", "decoded sum >= max_count => ceiling", "commutative"):
                obs.append(common.Ob(f"log{bits} merge at the pinned counters {pin} (real-idealised): {grp}", realmode.ob_merge_ideal, (bits, tmo, grp, pin), hard_s=tmo / 1000 * 3 + 120,
                                     bounds={"bits": bits, "counters": list(pin), "num_reserved, max_count, base": "symbolic"}))
        obs.append(common.Ob(f"witness: log{bits} idealised harness reaches the rounding-up and the saturating region", realmode.ob_merge_ideal, (bits, tmo, "WITNESS"), kind="witness", hard_s=tmo / 1000 * 3 + 120))
    bounds = {"configs(max_count,num_reserved)": {k: [list(c) for c in v] for k, v in cfgs.items()}, "cells": "1x1 tables: every pair of counters symbolic; rows/columns are independent in the kernel (checked for linear at larger shapes)"}
    stubs = ["float64 ** and np.log -> uninterpreted in IEEE mode (axiom pow(x,+-0)=1); in real-idealised mode pow/log over the reals with: pow(b,0)=1, pow(b,x+1)=b*pow(b,x), log(pow(b,x))=x*log(b), floor-of-log bracket b^n <= X < b^(n+1)"]
    outside = ["rounding of np.log / ** at exact decision boundaries (the nearest-counter lemma is in exact real arithmetic)", "range of the float->uint cast of log(...)/log(base) (not derivable with uninterpreted log)"]
    return obs, bounds, stubs, outside
