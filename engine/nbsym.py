"""Prototype: symbolic executor for numba typed IR -> z3 terms.  (design-phase feasibility probe)"""
import warnings; warnings.filterwarnings("ignore")
import operator, itertools, math
import z3
import numpy as np
import numba
from numba.core import ir, types
from numba.core.analysis import compute_cfg_from_blocks
from numba.core.dispatcher import Dispatcher
from engine.tir import typed_ir

IRCACHE={}
class Unsupported(Exception): pass
class PathAbort(Exception): pass

FPS = z3.Float64()
RM = z3.RNE()

def is_int(t): return isinstance(t, types.Integer)
def is_bool(t): return isinstance(t, types.Boolean)
def is_float(t): return isinstance(t, types.Float)
def unlit(t): return types.unliteral(t)

def simp(t):
    return z3.simplify(t) if z3.is_expr(t) else t

def as_const(t):
    """python value if z3 term is a numeral / bool const else None"""
    t = simp(t)
    if z3.is_bv_value(t): return t.as_long()
    if z3.is_true(t): return True
    if z3.is_false(t): return False
    return None

def fp_const(t):
    """python float if t is a Float64 numeral else None"""
    t=simp(t)
    if not z3.is_fp_value(t): return None
    import struct
    bv=z3.simplify(z3.fpToIEEEBV(t))
    if not z3.is_bv_value(bv): return None
    return struct.unpack("<d", struct.pack("<Q", bv.as_long()))[0]

def zi_of(t):
    """mathematical-integer view of a bit-vector term built as Int2BV(k, w) (math mode, see Executor.fpmode == 'real'):
    returns k (an Int term, canonical for an unsigned type) or None"""
    if not z3.is_expr(t) or not z3.is_bv(t): return None
    if z3.is_bv_value(t): return z3.IntVal(t.as_long())
    k=t.decl().kind()
    if k==z3.Z3_OP_INT2BV: return t.arg(0)
    if k==z3.Z3_OP_ITE:
        a=zi_of(t.arg(1)); b=zi_of(t.arg(2))
        if a is None or b is None: return None
        return z3.If(t.arg(0), a, b)
    return None

def nonneg(k):
    """syntactic check that Int term k is >= 0 (numerals, ite and sums of such)"""
    k=z3.simplify(k)
    if z3.is_int_value(k): return k.as_long()>=0
    if not z3.is_app(k): return False
    kind=k.decl().kind()
    if kind==z3.Z3_OP_ITE: return nonneg(k.arg(1)) and nonneg(k.arg(2))
    if kind==z3.Z3_OP_ADD: return all(nonneg(c) for c in k.children())
    return False

def canon(k, ty):
    """canonical representative of Int k in the value range of integer type ty"""
    w=ty.bitwidth
    k=z3.simplify(k)
    if z3.is_int_value(k):
        v=k.as_long() % (1<<w)
        if ty.signed and v >= (1<<(w-1)): v-=(1<<w)
        return z3.IntVal(v)
    if ty.signed:
        return (k + (1<<(w-1))) % (1<<w) - (1<<(w-1))
    return k % (1<<w)

def mathint(k, ty):
    """Val of integer type ty holding the canonical Int k (term = Int2BV(k))"""
    return Val(ty, z3.Int2BV(k, ty.bitwidth))

class Val:
    """typed value.  For float64 values that are known to equal an exact (small) integer, `iv` carries that integer as
    a signed 64-bit term with |iv| < 2^40: int->float casts of <=32-bit ints, and sums/differences of such values.
    This lets comparisons between them be decided in bit-vector arithmetic instead of bit-blasted IEEE circuits
    (sound: those conversions and +/- are exact in float64)."""
    __slots__=("ty","t","iv","ivb")
    def __init__(self, ty, t, iv=None, ivb=0): self.ty=unlit(ty); self.t=t; self.iv=iv; self.ivb=ivb
    def __repr__(self): return f"Val({self.ty},{self.t})"

def mk_int(ty, v):
    return Val(ty, z3.BitVecVal(v & ((1<<ty.bitwidth)-1), ty.bitwidth))

def signed_of(v):  # python int interpretation helper for consts
    c = as_const(v.t)
    if c is None: return None
    if v.ty.signed and c >= 1 << (v.ty.bitwidth-1): c -= 1 << v.ty.bitwidth
    return c

def cast(v, toty, ex=None):
    toty = unlit(toty)
    if v is None: return None
    if not isinstance(v, Val): return v
    fr = v.ty
    if fr == toty: return v
    if ex is not None and getattr(ex,'fpmode','fp')=='real' and is_int(fr) and (is_int(toty) or is_float(toty)):
        k=zi_of(v.t)
        if k is not None:
            if is_float(toty):
                c=z3.simplify(k)
                iv=z3.BitVecVal(c.as_long(),64) if z3.is_int_value(c) and abs(c.as_long())<(1<<40) else None
                return Val(toty, z3.ToReal(k), iv, 41)
            # value-preserving if the source range fits, else wrap
            fits = (fr.signed==toty.signed and toty.bitwidth>=fr.bitwidth) or (not fr.signed and toty.signed and toty.bitwidth>fr.bitwidth) \
                   or (fr.signed and not toty.signed and toty.bitwidth>=fr.bitwidth and nonneg(k))
            return mathint(k if fits else canon(k,toty), toty)
    if is_int(fr) and is_int(toty):
        if toty.bitwidth == fr.bitwidth: return Val(toty, v.t)
        if toty.bitwidth < fr.bitwidth: return Val(toty, simp(push_trunc(v.t, toty.bitwidth)))
        ext = z3.SignExt if fr.signed else z3.ZeroExt
        return Val(toty, simp(ext(toty.bitwidth-fr.bitwidth, v.t)))
    if is_bool(fr) and is_int(toty):
        return Val(toty, z3.If(v.t, z3.BitVecVal(1,toty.bitwidth), z3.BitVecVal(0,toty.bitwidth)))
    if is_int(fr) and is_bool(toty):
        return Val(toty, v.t != 0)
    if is_bool(fr) and is_bool(toty): return v
    realmode = ex is not None and getattr(ex,'fpmode','fp')=='real'
    if realmode and is_int(fr) and is_float(toty):
        ext=(z3.SignExt if fr.signed else z3.ZeroExt)
        iv=simp(ext(64-fr.bitwidth, v.t)) if fr.bitwidth<64 else v.t
        return Val(toty, z3.ToReal(z3.BV2Int(v.t, is_signed=fr.signed)), iv if fr.bitwidth<=32 else None, fr.bitwidth+1)
    if realmode and is_float(fr) and is_int(toty):
        # C cast truncates toward zero; out-of-range is undefined -> obligation
        # math mode: the truncated value is a fresh Int bracketed by the real (non-negative case; negative values
        # are reported through the range obligation); the range obligation is recorded and ASSUMED afterwards
        ex._nfresh=getattr(ex,'_nfresh',0)+1
        tr=z3.Int(f"trunc{ex._nfresh}")
        lo,hi=((-(1<<(toty.bitwidth-1))),(1<<(toty.bitwidth-1))-1) if toty.signed else (0,(1<<toty.bitwidth)-1)
        ex.fp2int.append((z3.And(*getattr(ex,'cur_pc',[]), z3.Or(v.t<lo, v.t>=hi+1)), toty))
        ex.trunc_defs.append(z3.And(z3.ToReal(tr)<=v.t, v.t<z3.ToReal(tr)+1))
        return mathint(tr, toty)
    if is_int(fr) and is_float(toty):
        if toty.bitwidth != 64: raise Unsupported("float32")
        if fr.bitwidth<=32:
            iv=simp((z3.SignExt if fr.signed else z3.ZeroExt)(64-fr.bitwidth, v.t))
            return Val(toty, simp(z3.fpSignedToFP(RM, iv, FPS)), iv, fr.bitwidth+1)
        if fr.signed: return Val(toty, simp(z3.fpSignedToFP(RM, v.t, FPS)))
        c=as_const(v.t)
        if c is not None and c < (1<<40): return Val(toty, simp(z3.fpUnsignedToFP(RM, v.t, FPS)), z3.BitVecVal(c,64), 41)
        return Val(toty, simp(z3.fpUnsignedToFP(RM, v.t, FPS)))
    if is_float(fr) and is_int(toty) and v.iv is not None:
        # the float is exactly the integer iv: conversion is exact when in range (range recorded as obligation)
        lo,hi=((-(1<<(toty.bitwidth-1))),(1<<(toty.bitwidth-1))-1) if toty.signed else (0,(1<<toty.bitwidth)-1)
        if ex is not None: ex.fp2int.append((z3.And(*getattr(ex,'cur_pc',[]), z3.Or(v.iv<lo, v.iv>hi)), toty))
        return Val(toty, simp(z3.Extract(toty.bitwidth-1,0,v.iv)))
    if is_float(fr) and is_int(toty):
        # fptoui/fptosi: undefined if out of range -> record obligation
        if ex is not None: ex.note_fp2int(v, toty)
        if toty.signed: return Val(toty, z3.fpToSBV(z3.RTZ(), v.t, z3.BitVecSort(toty.bitwidth)))
        return Val(toty, z3.fpToUBV(z3.RTZ(), v.t, z3.BitVecSort(toty.bitwidth)))
    if is_float(fr) and is_float(toty): return v
    raise Unsupported(f"cast {fr}->{toty}")

def push_trunc(t, w):
    """low-w-bits of t, pushing the truncation through ring operations and the MUL uninterpreted symbol
    (sound: low_w(a op b) == low_w(a) op low_w(b) for op in + - * ^ & | and for zero/sign extension)."""
    if t.size()==w: return t
    if w not in (8,16,32,64): return z3.Extract(w-1,0,t)   # only machine widths: never invent new MUL symbols
    k=t.decl().kind(); ch=t.children()
    if z3.is_bv_value(t): return z3.BitVecVal(t.as_long() & ((1<<w)-1), w)
    if k in (z3.Z3_OP_BADD, z3.Z3_OP_BSUB, z3.Z3_OP_BMUL, z3.Z3_OP_BXOR, z3.Z3_OP_BAND, z3.Z3_OP_BOR):
        cs=[push_trunc(c,w) for c in ch]
        out=cs[0]
        for c in cs[1:]:
            out={z3.Z3_OP_BADD:lambda a,b:a+b, z3.Z3_OP_BSUB:lambda a,b:a-b, z3.Z3_OP_BMUL:lambda a,b:a*b,
                 z3.Z3_OP_BXOR:lambda a,b:a^b, z3.Z3_OP_BAND:lambda a,b:a&b, z3.Z3_OP_BOR:lambda a,b:a|b}[k](out,c)
        return out
    if k in (z3.Z3_OP_ZERO_EXT, z3.Z3_OP_SIGN_EXT):
        inner=ch[0]
        if inner.size()>=w: return push_trunc(inner,w)
    if k==z3.Z3_OP_CONCAT:
        # keep low parts
        parts=[]; need=w
        for c in reversed(ch):
            if need<=0: break
            if c.size()<=need: parts.insert(0,c); need-=c.size()
            else: parts.insert(0,push_trunc(c,need)); need=0
        return parts[0] if len(parts)==1 else z3.Concat(*parts)
    if k==z3.Z3_OP_UNINTERPRETED and t.decl().name().startswith("MUL"):
        a,b=ch
        return Executor.mulsym(w)(push_trunc(a,w), push_trunc(b,w))
    if k==z3.Z3_OP_ITE:
        return z3.If(ch[0], push_trunc(ch[1],w), push_trunc(ch[2],w))
    return z3.Extract(w-1,0,t)

class HashToken(Val):
    """result of a stubbed hash call: only `token % W` is allowed; yields the column term supplied by `colfn(seed, W)`
    (memoised by the key book, so equal key+seed give equal columns)"""
    def __init__(self, ty, key, seed, colfn):
        Val.__init__(self, ty, None); self.key=key; self.seed=seed; self.colfn=colfn
    def mod(self, ex, state, w, rt):
        wc=as_const(w.t)
        if wc is None: raise Unsupported("symbolic width")
        sc=as_const(self.seed.t)
        if sc is None: raise Unsupported("symbolic hash seed")
        v,c=self.colfn(sc, wc)
        if c is not None and not any(c.eq(p) for p in state.pc): state.pc.append(c)
        return Val(rt, z3.ZeroExt(rt.bitwidth-v.size(), v) if v.size()<rt.bitwidth else v)

class Store:
    """flat cell storage for arrays; copy-on-write by state"""
    _ids = itertools.count()
    def __init__(self): self.id = next(Store._ids)

class Arr:
    """view on a store: dtype, shape, strides(in elements), offset"""
    def __init__(self, sid, dtype, shape, strides=None, offset=0, readonly=False):
        self.sid=sid; self.dtype=unlit(dtype); self.shape=tuple(shape); self.offset=offset; self.readonly=readonly
        if strides is None:
            strides=[]; s=1
            for d in reversed(self.shape): strides.insert(0,s); s*=d
        self.strides=tuple(strides)
    @property
    def ndim(self): return len(self.shape)
    def size(self):
        n=1
        for d in self.shape: n*=d
        return n
    def flat_indices(self):
        for idx in itertools.product(*[range(d) for d in self.shape]):
            yield idx, self.offset+sum(i*s for i,s in zip(idx,self.strides))

class FArr:
    """functional 1-d array: heap[sid] is a single z3 Array(BV64 -> BV dtype); extent is a z3 BV64 term"""
    def __init__(self, sid, dtype, extent): self.sid=sid; self.dtype=unlit(dtype); self.extent=extent; self.ndim=1

def interp_definition(x, XP, FP, n):
    """np.interp(x, xp, fp) for increasing xp with n knots, over the reals: fp[0] left of the table, fp[n-1] right of it,
    the chord through the neighbouring knots inside"""
    xs=[z3.Select(XP, j) for j in range(n)]; fs=[z3.Select(FP, j) for j in range(n)]
    t=fs[n-1]
    for j in range(n-2, -1, -1):
        seg=fs[j] + (x - xs[j]) * (fs[j+1] - fs[j]) / (xs[j+1] - xs[j])
        t=z3.If(x < xs[j+1], seg, t)
    return z3.If(x <= xs[0], fs[0], z3.If(x >= xs[n-1], fs[n-1], t))


class FArrR:
    """functional 1-d float64 array for the real-idealised mode: heap[sid] is a z3 Array(Int -> Real); extent a python int"""
    def __init__(self, sid, extent): self.sid=sid; self.dtype=types.float64; self.extent=extent; self.ndim=1; self.shape=(extent,)

class SBytes:
    def __init__(self, cells): self.cells=list(cells)
    def __len__(self): return len(self.cells)

class RangeState:
    def __init__(self, ty, start, stop, step): self.ty=ty; self.start=start; self.stop=stop; self.step=step
class RangeIter:
    _ids=itertools.count()
    def __init__(self, rs): self.rs=rs; self.id=('r',next(RangeIter._ids))
class ArrIter:
    _ids=itertools.count()
    def __init__(self, arr): self.arr=arr; self.id=('a',next(ArrIter._ids))
class Pair:
    def __init__(self, a, b): self.a=a; self.b=b

class State:
    def __init__(self):
        self.heap={}       # sid -> tuple of z3 terms
        self.pc=[]         # list of z3 bool
        self.oblig=[]      # (kind, cond-under-which-bad)   safety obligations collected
        self.trace=[]      # stub call records
        self.iters={}      # iterator id -> position (python int)
    def fork(self):
        s=State(); s.iters=dict(self.iters); s.heap=dict(self.heap); s.pc=list(self.pc); s.oblig=list(self.oblig); s.trace=list(self.trace); return s
    def pcterm(self): return z3.And(*self.pc) if self.pc else z3.BoolVal(True)

def merge_states(states):
    """ite-merge of a list of states (same store ids & sizes). returns merged state and list of guards"""
    if len(states)==1: return states[0], [z3.BoolVal(True)]
    base=states[0]
    # find common pc prefix
    k=0
    while all(len(s.pc)>k for s in states) and all(s.pc[k] is states[0].pc[k] for s in states): k+=1
    guards=[simp(z3.And(*s.pc[k:])) if len(s.pc)>k else z3.BoolVal(True) for s in states]
    m=State(); m.pc=list(base.pc[:k])+[simp(z3.Or(*guards))]
    for itid in set().union(*[set(s.iters) for s in states]):
        vs=set(s.iters.get(itid) for s in states)
        if len(vs)==1: m.iters[itid]=vs.pop()
        else: m.iters[itid]='POISON'
    sids=set()
    for s in states: sids|=set(s.heap)
    for sid in sids:
        cols=[s.heap.get(sid) for s in states]
        ref=next(c for c in cols if c is not None)
        if not isinstance(ref, tuple):
            v=None
            for g,c in reversed(list(zip(guards,cols))):
                if c is None: continue
                v = c if v is None else (c if c.eq(v) else z3.If(g,c,v))
            m.heap[sid]=v; continue
        out=[]
        for ci in range(len(ref)):
            v=None
            for g,c in reversed(list(zip(guards,cols))):
                if c is None: continue
                v = c[ci] if v is None else (c[ci] if c[ci] is v else z3.If(g,c[ci],v))
            out.append(v)
        m.heap[sid]=tuple(out)
    for g,s in zip(guards,states):
        for (kind,cond) in s.oblig[len(base.oblig) if s is base else 0:]:
            pass
    # obligations: keep union (guarded by their own path conditions already)
    seen=set()
    for s in states:
        for ob in s.oblig:
            if id(ob) not in seen: seen.add(id(ob)); m.oblig.append(ob)
    m.trace=[('merged',[ (g,s.trace) for g,s in zip(guards,states)])] if any(s.trace for s in states) else []
    return m, guards

def merge_vals(guards, vals):
    v0=vals[0]
    if all(v is None for v in vals): return None
    if isinstance(v0, Val):
        t=vals[-1].t
        for g,v in reversed(list(zip(guards[:-1],vals[:-1]))):
            t = v.t if v.t is t else z3.If(g, v.t, t)
        if all(v.iv is not None for v in vals):
            iv=vals[-1].iv
            for g,v in reversed(list(zip(guards[:-1],vals[:-1]))):
                iv = v.iv if v.iv is iv else z3.If(g, v.iv, iv)
            return Val(v0.ty, t, iv, max(v.ivb for v in vals))
        return Val(v0.ty, t)
    if isinstance(v0, tuple):
        return tuple(merge_vals(guards,[v[i] for v in vals]) for i in range(len(v0)))
    if all(v is v0 for v in vals): return v0
    raise Unsupported(f"merge of {type(v0)}")

class Executor:
    def __init__(self, stubs=None, fpmode="fp", max_paths=20000, loop_bound=64, solver_prune=True):
        self.fpmode=fpmode; self.trunc_defs=[]; self.interp_calls=[]; self.interp_axioms=[]
        self.stubs = stubs or {}     # py_func name -> callable(ex, state, args, sig) -> Val
        self.ircache=IRCACHE
        self.max_paths=max_paths; self.npaths=0
        self.loop_bound=loop_bound
        self.solver_prune=solver_prune
        self.funcs_encoded=set()
        self.fp2int=[]
    def note_fp2int(self, v, toty): self.fp2int.append((v,toty))

    # ---- IR access
    def get_ir(self, disp, argtys):
        key=(disp.py_func, tuple(argtys))
        if key not in self.ircache:
            r=typed_ir(disp.py_func, tuple(argtys), None)
            fir=r['func_ir']
            cfg=compute_cfg_from_blocks(fir.blocks)
            pd=cfg.post_dominators()
            ipdom={}
            for b in fir.blocks:
                cands=[p for p in pd[b] if p!=b]
                best=None
                for p in cands:
                    if best is None or len(pd[p])>len(pd[best]): best=p
                ipdom[b]=best
            r['ipdom']=ipdom
            self.ircache[key]=r
            self.funcs_encoded.add(disp.py_func.__module__+"."+disp.py_func.__name__)
        return self.ircache[key]

    # ---- calling
    def call_dispatcher(self, disp, state, args, sig=None):
        """returns list of (state, retval)"""
        name=disp.py_func.__name__
        if name in self.stubs:
            return self.stubs[name](self, state, args, sig)
        # choose signature
        if sig is None:
            sig=disp.nopython_signatures[0]
        else:
            # numba resolved this call to one of disp's compiled signatures; find it
            cands=[s for s in disp.nopython_signatures if len(s.args)==len(sig.args)]
            match=[s for s in cands if all(unlit(a)==unlit(b) for a,b in zip(s.args,sig.args))]
            sig = match[0] if match else cands[0]
        cargs=[cast(a,t,self) if isinstance(a,Val) else a for a,t in zip(args,sig.args)]
        r=self.get_ir(disp, sig.args)
        outs=self.run_blocks(r, state, cargs, sig)
        return outs

    def run_blocks(self, r, state, args, sig):
        fir=r['func_ir']
        first=min(fir.blocks)
        env={}
        results=[]   # (state, retval)
        self._exec_from(r, first, 0, env, state, args, None, results, sig)
        # merge all return outcomes
        if not results: return []
        if len(results)==1: return results
        israise=lambda v: isinstance(v,tuple) and len(v)>0 and isinstance(v[0],str) and v[0]=='raise'
        raising=[(s,v) for s,v in results if israise(v)]
        results=[(s,v) for s,v in results if not israise(v)]
        if len(results)<=1: return results+raising
        sts=[s for s,_ in results]; vals=[v for _,v in results]
        m,guards=merge_states(sts)
        try:
            mv=merge_vals(guards, vals)
        except Unsupported:
            return results+raising
        return [(m,mv)]+raising

    def _exec_from(self, r, label, idx, env, state, args, stop, results, sig, arrivals=None, prev=None):
        """execute from (label, idx) until Return (append to results) or reaching block `stop` (append (state,env,prev) to arrivals)"""
        fir=r['func_ir']; typemap=r['typemap']; calltypes=r['calltypes']
        while True:
            if label==stop and idx==0:
                arrivals.append((state, env, prev)); return
            blk=fir.blocks[label]
            body=blk.body
            jumped=False
            while idx < len(body):
                st=body[idx]; idx+=1
                if isinstance(st, ir.Del): continue
                self.cur_pc=state.pc
                if isinstance(st, ir.Assign):
                    v=self.eval_assign(st, env, state, args, r, prev)
                    if isinstance(v, list):   # call produced multiple outcomes: fork
                        outs=v
                        if len(outs)==0: return
                        for (s2, val) in outs[1:]:
                            e2=dict(env); e2[st.target.name]=self.coerce(val, typemap.get(st.target.name))
                            self._exec_from(r, label, idx, e2, s2, args, stop, results, sig, arrivals, prev)
                        state, val = outs[0]
                        env[st.target.name]=self.coerce(val, typemap.get(st.target.name))
                    else:
                        env[st.target.name]=self.coerce(v, typemap.get(st.target.name))
                    continue
                if isinstance(st, (ir.SetItem, ir.StaticSetItem)):
                    tgt=env[st.target.name]
                    index = st.index if isinstance(st, ir.StaticSetItem) else env[st.index.name]
                    val=env[st.value.name]
                    self.setitem(state, tgt, index, val, calltypes.get(st))
                    continue
                if isinstance(st, ir.Jump):
                    prev=label; label=st.target; idx=0; jumped=True; break
                if isinstance(st, ir.Return):
                    rv=env[st.value.name]
                    if sig is not None and isinstance(rv, Val): rv=cast(rv, sig.return_type, self)
                    elif sig is not None and isinstance(rv, tuple) and hasattr(sig.return_type,'types'):
                        rv=tuple(cast(x,t,self) if isinstance(x,Val) else x for x,t in zip(rv, sig.return_type.types))
                    self.npaths+=1
                    if self.npaths>self.max_paths: raise Unsupported("path budget")
                    results.append((state, rv)); return
                if isinstance(st, ir.Branch):
                    c=env[st.cond.name]
                    cc=as_const(c.t)
                    if cc is not None:
                        prev=label; label = st.truebr if cc else st.falsebr; idx=0; jumped=True; break
                    # symbolic branch
                    feas=[]
                    for br,cond in ((st.truebr,c.t),(st.falsebr,z3.Not(c.t))):
                        if self.solver_prune:
                            sl=z3.Solver(); sl.set("timeout",2000); sl.add(*state.pc); sl.add(cond)
                            if sl.check()==z3.unsat: continue
                        feas.append((br,cond))
                    if len(feas)==1:
                        state.pc.append(feas[0][1]); prev=label; label=feas[0][0]; idx=0; jumped=True; break
                    if not feas: return
                    J=r['ipdom'].get(label)
                    if J is not None and J in fir.blocks and J!=stop:
                        arr=[]
                        for br,cond in feas:
                            s2=state.fork(); s2.pc.append(cond)
                            self._exec_from(r, br, 0, dict(env), s2, args, J, results, sig, arr, label)
                        if not arr: return
                        # merge arrivals at J
                        sts=[a[0] for a in arr]
                        m,guards=merge_states(sts)
                        # merge envs: names present in all
                        names=set(arr[0][1])
                        for a in arr[1:]: names&=set(a[1])
                        menv={}
                        for n in names:
                            vs=[a[1][n] for a in arr]
                            if all(v is vs[0] for v in vs): menv[n]=vs[0]; continue
                            try: menv[n]=merge_vals(guards,vs)
                            except Unsupported: pass
                        prevs=[a[2] for a in arr]
                        # phi nodes at J need per-arrival predecessor: resolve by building merged phi later
                        env=menv; state=m; label=J; idx=0
                        prev=('multi', list(zip(guards, prevs, [a[1] for a in arr])))
                        jumped=True; break
                    else:
                        for br,cond in feas[1:]:
                            s2=state.fork(); s2.pc.append(cond)
                            self._exec_from(r, br, 0, dict(env), s2, args, stop, results, sig, arrivals, label)
                        state.pc.append(feas[0][1]); prev=label; label=feas[0][0]; idx=0; jumped=True; break
                if isinstance(st, ir.Raise) or isinstance(st, ir.StaticRaise) or type(st).__name__ in ("StaticRaise","Raise","DynamicRaise"):
                    ecls=getattr(st,'exc_class',None); eargs=getattr(st,'exc_args',None)
                    if ecls is None and getattr(st,'exception',None) is not None:
                        ev_=env.get(st.exception.name)
                        if isinstance(ev_, tuple) and ev_ and ev_[0]=='exc': ecls, eargs = ev_[1], ev_[2]
                        elif isinstance(ev_, type): ecls=ev_
                    results.append((state, ('raise', ecls, eargs))); return
                raise Unsupported(f"stmt {type(st)} {st}")
            if not jumped:
                raise Unsupported("fell off block")

    def coerce(self, val, ty):
        if isinstance(val, HashToken): return val
        if isinstance(val, Val) and ty is not None and (is_int(unlit(ty)) or is_float(unlit(ty)) or is_bool(unlit(ty))):
            return cast(val, ty, self)
        return val

    # ---- expression evaluation
    def eval_assign(self, st, env, state, args, r, prev):
        v=st.value; typemap=r['typemap']; calltypes=r['calltypes']
        tty=typemap.get(st.target.name)
        if isinstance(v, ir.Arg):
            return args[v.index]
        if isinstance(v, ir.Var):
            return env[v.name]
        if isinstance(v, ir.Const):
            return self.const(v.value, tty)
        if isinstance(v, (ir.Global, ir.FreeVar)):
            return v.value
        if isinstance(v, ir.Expr):
            return self.eval_expr(v, env, state, r, tty, prev)
        raise Unsupported(f"assign value {type(v)}")

    def const(self, value, tty):
        t=unlit(tty) if tty is not None else None
        if value is None: return None
        if isinstance(value, bool): return Val(types.boolean, z3.BoolVal(value))
        if isinstance(value, int):
            if t is None or not is_int(t): t=types.int64
            return mk_int(t, value)
        if isinstance(value, float) and getattr(self,'fpmode','fp')=='real':
            import fractions
            fr_=fractions.Fraction(value)
            iv_=z3.BitVecVal(int(value),64) if value==int(value) and abs(value)<(1<<40) else None
            return Val(types.float64, z3.RealVal(str(fr_)), iv_, 41)
        if isinstance(value, float):
            if value==int(value) and abs(value)<(1<<40) and not (value==0 and str(value).startswith("-")):
                return Val(types.float64, z3.FPVal(value, FPS), z3.BitVecVal(int(value),64), 41)
            return Val(types.float64, z3.FPVal(value, FPS))
        return value

    def eval_expr(self, e, env, state, r, tty, prev):
        op=e.op; calltypes=r['calltypes']
        if op in ("binop","inplace_binop"):
            fn = e.fn if op=="binop" else e.immutable_fn
            sig=calltypes[e]
            return self.binop(fn, env[e.lhs.name], env[e.rhs.name], sig, state)
        if op=="unary":
            sig=calltypes[e]; a=env[e.value.name]
            return self.unary(e.fn, a, sig)
        if op=="cast":
            return self.coerce(env[e.value.name], tty)
        if op=="getattr":
            base=env[e.value.name]
            if isinstance(base, Arr) and e.attr=="shape":
                return tuple(mk_int(types.int64,d) for d in base.shape)
            if isinstance(base, FArrR) and e.attr in ("size","shape"):
                sz = mathint(z3.IntVal(base.extent), types.int64) if self.fpmode=='real' else mk_int(types.int64, base.extent)
                return sz if e.attr=="size" else (sz,)
            return getattr(base, e.attr)
        if op=="build_tuple":
            return tuple(env[i.name] for i in e.items)
        if op=="getitem":
            return self.getitem(state, env[e.value.name], env[e.index.name], calltypes.get(e))
        if op=="static_getitem":
            idx = e.index
            if isinstance(idx, int): idx=mk_int(types.int64, idx)
            elif isinstance(idx, slice): pass
            return self.getitem(state, env[e.value.name], idx, calltypes.get(e))
        if op=="getiter":
            v=env[e.value.name]
            if isinstance(v, RangeState): return RangeIter(v)
            if isinstance(v, Arr): return ArrIter(v)
            raise Unsupported(f"getiter {type(v)}")
        if op=="iternext":
            it=env[e.value.name]
            return self.iternext(state, it)
        if op=="pair_first": return env[e.value.name].a
        if op=="pair_second": return env[e.value.name].b
        if op=="exhaust_iter": return env[e.value.name]
        if op=="phi":
            # pick by predecessor
            if isinstance(prev, tuple) and prev[0]=='multi':
                guards=[]; vals=[]
                for g,p,env_p in prev[1]:
                    # p may itself be nested 'multi'; take value var by incoming block match
                    pl = p if not (isinstance(p,tuple)) else None
                    val=None
                    for iv,ib in zip(e.incoming_values, e.incoming_blocks):
                        if ib==pl:
                            val = env_p.get(iv.name) if isinstance(iv, ir.Var) else None
                    if val is None: raise Unsupported("phi nested")
                    guards.append(g); vals.append(self.coerce(val, tty))
                return merge_vals(guards, vals)
            for iv,ib in zip(e.incoming_values, e.incoming_blocks):
                if ib==prev:
                    if iv is ir.UNDEFINED: return None
                    return env[iv.name]
            raise Unsupported(f"phi no pred {prev} in {e.incoming_blocks}")
        if op=="call":
            f=env[e.func.name]; a=[env[x.name] for x in e.args]; sig=calltypes.get(e)
            kws=dict((k,env[v.name]) for k,v in e.kws) if e.kws else {}
            return self.call(f, a, kws, sig, state, tty)
        raise Unsupported(f"expr op {op}: {e}")

    def iternext(self, state, it):
        if isinstance(it, RangeIter):
            rs=it.rs
            n=state.iters.get(it.id,0)
            if n=='POISON': raise Unsupported("iterator merged with different positions")
            cur=Val(rs.ty, simp(rs.start.t+z3.BitVecVal(n,rs.ty.bitwidth)))
            # cond: cur < stop (step=1); also start+n must not wrap (n small)
            if rs.ty.signed: c=cur.t < rs.stop.t
            else: c=z3.ULT(cur.t, rs.stop.t)
            c=simp(c)
            state.iters[it.id]=n+1
            if n>self.loop_bound: raise Unsupported("loop bound exceeded")
            return Pair(cur, Val(types.boolean, c))
        if isinstance(it, ArrIter):
            a=it.arr
            if a.ndim!=1: raise Unsupported("iter nd")
            i=state.iters.get(it.id,0)
            if i=='POISON': raise Unsupported("iterator merged with different positions")
            if i < a.shape[0]:
                v=Val(a.dtype, state.heap[a.sid][a.offset+i*a.strides[0]]); state.iters[it.id]=i+1
                return Pair(v, Val(types.boolean, z3.BoolVal(True)))
            return Pair(Val(a.dtype, z3.BitVecVal(0,a.dtype.bitwidth)) if is_int(a.dtype) else None, Val(types.boolean, z3.BoolVal(False)))
        raise Unsupported("iternext")

    # NOTE: iterators are mutable python objects shared between forked envs -> must copy on fork.
    # prototype: forks copy env dict shallowly; we re-create iterators by copying in fork points (see fork_env)

    def binop(self, fn, a, b, sig, state):
        ta,tb=unlit(sig.args[0]),unlit(sig.args[1]); rt=unlit(sig.return_type)
        if isinstance(a, Arr) or isinstance(b, Arr):
            return self.array_binop(fn, a, b, sig, state)
        if isinstance(a, HashToken):
            if fn is operator.mod:
                return a.mod(self, state, cast(b,tb,self), rt)
            raise Unsupported("hash token used other than by % width")
        a=cast(a,ta,self); b=cast(b,tb,self)
        cmpops={operator.lt,operator.le,operator.gt,operator.ge,operator.eq,operator.ne}
        if self.fpmode=='real' and is_int(ta) and is_int(tb) and isinstance(a,Val) and isinstance(b,Val):
            ka=zi_of(a.t); kb=zi_of(b.t)
            if ka is not None and kb is not None:
                pyop={operator.lt:lambda x,y:x<y,operator.le:lambda x,y:x<=y,operator.gt:lambda x,y:x>y,operator.ge:lambda x,y:x>=y,
                      operator.eq:lambda x,y:x==y,operator.ne:lambda x,y:x!=y}
                if fn in pyop: return Val(types.boolean, simp(pyop[fn](ka,kb)))
                if is_int(rt) and fn in (operator.add, operator.sub, operator.mul):
                    # operands are first converted to the result type (two's complement), then combined modulo 2^w
                    ka2=ka if (ta.signed==rt.signed and rt.bitwidth>=ta.bitwidth) or (not ta.signed and rt.bitwidth>ta.bitwidth) else canon(ka,rt)
                    kb2=kb if (tb.signed==rt.signed and rt.bitwidth>=tb.bitwidth) or (not tb.signed and rt.bitwidth>tb.bitwidth) else canon(kb,rt)
                    k={operator.add:ka2+kb2, operator.sub:ka2-kb2, operator.mul:ka2*kb2}[fn]
                    lo,hi=((-(1<<(rt.bitwidth-1))),(1<<(rt.bitwidth-1))-1) if rt.signed else (0,(1<<rt.bitwidth)-1)
                    # math mode: wrap-around is an obligation (recorded), not modelled
                    state.oblig.append(("int-wrap", z3.And(*state.pc, z3.Or(k<lo, k>hi))))
                    return mathint(k, rt)
        if fn in cmpops:
            if is_float(ta) or is_float(tb):
                A=cast(a,types.float64,self); B=cast(b,types.float64,self)
                if A.iv is not None and B.iv is not None:
                    t={operator.lt:lambda x,y:x<y,operator.le:lambda x,y:x<=y,operator.gt:lambda x,y:x>y,operator.ge:lambda x,y:x>=y,
                       operator.eq:lambda x,y:x==y,operator.ne:lambda x,y:x!=y}[fn](A.iv,B.iv)
                    return Val(types.boolean, simp(t))
                fa=A.t; fb=B.t
                if getattr(self,'fpmode','fp')=='real':
                    t={operator.lt:lambda x,y:x<y,operator.le:lambda x,y:x<=y,operator.gt:lambda x,y:x>y,operator.ge:lambda x,y:x>=y,
                       operator.eq:lambda x,y:x==y,operator.ne:lambda x,y:x!=y}[fn](fa,fb)
                    return Val(types.boolean, simp(t))
                t={operator.lt:z3.fpLT,operator.le:z3.fpLEQ,operator.gt:z3.fpGT,operator.ge:z3.fpGEQ,operator.eq:z3.fpEQ,operator.ne:z3.fpNEQ}[fn](fa,fb)
                return Val(types.boolean, simp(t))
            if is_bool(ta) and is_bool(tb):
                t = (a.t==b.t) if fn is operator.eq else z3.Xor(a.t,b.t)
                return Val(types.boolean, simp(t))
            # ints: mathematically-correct comparison (numba special-cases mixed signedness)
            w=max(ta.bitwidth,tb.bitwidth)+1
            ea=(z3.SignExt if ta.signed else z3.ZeroExt)(w-ta.bitwidth,a.t)
            eb=(z3.SignExt if tb.signed else z3.ZeroExt)(w-tb.bitwidth,b.t)
            t={operator.lt:lambda x,y:x<y,operator.le:lambda x,y:x<=y,operator.gt:lambda x,y:x>y,operator.ge:lambda x,y:x>=y,
               operator.eq:lambda x,y:x==y,operator.ne:lambda x,y:x!=y}[fn](ea,eb)
            return Val(types.boolean, simp(t))
        if is_float(rt):
            A=cast(a,types.float64,self); B=cast(b,types.float64,self)
            if A.iv is not None and B.iv is not None and fn in (operator.add, operator.sub) and max(A.ivb,B.ivb)<45:
                iv=simp(A.iv+B.iv if fn is operator.add else A.iv-B.iv)
                return Val(rt, simp(z3.fpSignedToFP(RM, iv, FPS)), iv, max(A.ivb,B.ivb)+1)
            fa=A.t; fb=B.t
            if getattr(self,'fpmode','fp')=='real':
                if fn is operator.add: t=fa+fb
                elif fn is operator.sub: t=fa-fb
                elif fn is operator.mul: t=fa*fb
                elif fn is operator.truediv:
                    state.oblig.append(("float-div-by-zero", z3.And(*state.pc, fb==0)))
                    t=fa/fb
                elif fn is operator.pow: t=Executor.POWR(fa,fb)
                else: raise Unsupported(f"real op {fn}")
                iv=None; ivb=0
                if A.iv is not None and B.iv is not None and fn in (operator.add, operator.sub) and max(A.ivb,B.ivb)<45:
                    iv=simp(A.iv+B.iv if fn is operator.add else A.iv-B.iv); ivb=max(A.ivb,B.ivb)+1
                return Val(rt, t, iv, ivb)
            if fn is operator.add: t=z3.fpAdd(RM,fa,fb)
            elif fn is operator.sub: t=z3.fpSub(RM,fa,fb)
            elif fn is operator.mul: t=z3.fpMul(RM,fa,fb)
            elif fn is operator.truediv: t=z3.fpDiv(RM,fa,fb)
            elif fn is operator.pow: t=self.uf_pow(fa,fb)
            else: raise Unsupported(f"float op {fn}")
            return Val(rt, simp(t))
        if is_int(rt):
            x=cast(a,rt,self).t; y=cast(b,rt,self).t
            if fn is operator.add: t=x+y
            elif fn is operator.sub: t=x-y
            elif fn is operator.mul: t=self.imul(x,y,rt.bitwidth)
            elif fn is operator.and_: t=x&y
            elif fn is operator.or_: t=x|y
            elif fn is operator.xor: t=x^y
            elif fn is operator.lshift:
                state.oblig.append(("shift>=width", z3.And(*state.pc, z3.UGE(y, rt.bitwidth))))
                t=x<<y
            elif fn is operator.rshift:
                state.oblig.append(("shift>=width", z3.And(*state.pc, z3.UGE(y, rt.bitwidth))))
                t=(x>>y) if rt.signed else z3.LShR(x,y)
            elif fn is operator.floordiv or fn is operator.mod:
                state.oblig.append(("zerodiv", z3.And(*state.pc, y==0)))
                if rt.signed:
                    # python floor semantics
                    q=x/y; rem=z3.SRem(x,y)
                    adj=z3.And(rem!=0, (rem<0)!=(y<0))
                    if fn is operator.floordiv: t=z3.If(adj,q-1,q)
                    else: t=z3.If(adj,rem+y,rem)
                else:
                    t=z3.UDiv(x,y) if fn is operator.floordiv else z3.URem(x,y)
            elif fn is operator.pow:
                cb=signed_of(Val(rt,y))
                if cb is None or cb<0 or cb>8: raise Unsupported("int pow")
                t=z3.BitVecVal(1,rt.bitwidth)
                for _ in range(cb): t=t*x
            else: raise Unsupported(f"int op {fn}")
            return Val(rt, simp(t))
        if is_bool(rt):
            if fn is operator.and_: return Val(rt, simp(z3.And(a.t,b.t)))
            if fn is operator.or_: return Val(rt, simp(z3.Or(a.t,b.t)))
        raise Unsupported(f"binop {fn} {sig}")

    def unary(self, fn, a, sig):
        rt=unlit(sig.return_type); a=cast(a, sig.args[0], self)
        if fn is operator.neg:
            if is_float(rt) and getattr(self,'fpmode','fp')=='real': return Val(rt, -cast(a,rt,self).t)
            if is_float(rt): return Val(rt, simp(z3.fpNeg(cast(a,rt,self).t)))
            return Val(rt, simp(-cast(a,rt,self).t))
        if fn is operator.not_: return Val(types.boolean, simp(z3.Not(cast(a,types.boolean,self).t)))
        if fn is operator.invert: return Val(rt, simp(~cast(a,rt,self).t))
        raise Unsupported(f"unary {fn}")

    MULS={}
    @staticmethod
    def mulsym(w):
        if w not in Executor.MULS:
            Executor.MULS[w]=z3.Function(f"MUL{w}", z3.BitVecSort(w), z3.BitVecSort(w), z3.BitVecSort(w))
        return Executor.MULS[w]
    def imul(self, x, y, w):
        if not getattr(self,'uf_mul',False): return x*y
        x=z3.simplify(x); y=z3.simplify(y)
        if z3.is_bv_value(x) and z3.is_bv_value(y): return x*y
        if z3.is_bv_value(x) and not z3.is_bv_value(y): x,y=y,x     # constant second
        return Executor.mulsym(w)(x,y)
    POWR=z3.Function("powr", z3.RealSort(), z3.RealSort(), z3.RealSort())
    LOGR=z3.Function("logr", z3.RealSort(), z3.RealSort())
    EXPR=z3.Function("expr", z3.RealSort(), z3.RealSort())
    EXP=z3.Function("exp", FPS, FPS)
    INTERP=z3.Function("interp", FPS, FPS)
    INTERPR=z3.Function("interpr", z3.RealSort(), z3.RealSort())
    LOG2=z3.Function("log2", FPS, FPS)
    LOG2R=z3.Function("log2r", z3.RealSort(), z3.RealSort())
    INTERPT=z3.Function("interp_tab", z3.RealSort(), z3.ArraySort(z3.IntSort(), z3.RealSort()), z3.ArraySort(z3.IntSort(), z3.RealSort()), z3.RealSort())
    POW=z3.Function("pow", FPS, FPS, FPS)
    LOG=z3.Function("log", FPS, FPS)
    def uf_pow(self, a, b):
        """float64 ** float64: uninterpreted, except that two numerals are evaluated with the host's libm pow
        (assumption: Numba's llvm.pow agrees with numpy's pow on this host; replays re-check on the real code)"""
        fa=fp_const(a); fb=fp_const(b)
        if fa is not None and fb is not None:
            import numpy as _np
            with _np.errstate(all="ignore"):
                return z3.FPVal(float(_np.float64(fa)**_np.float64(fb)), FPS)
        return Executor.POW(a,b)

    def array_binop(self, fn, a, b, sig, state):
        if not (isinstance(a,Arr) and isinstance(b,Arr)): raise Unsupported("array-scalar binop")
        if a.shape!=b.shape: raise Unsupported(f"broadcast {a.shape} {b.shape}")
        rt=unlit(sig.return_type)
        esig=numba.core.typing.signature(rt.dtype, a.dtype, b.dtype)
        cells=[]
        ha=state.heap[a.sid]; hb=state.heap[b.sid]
        for (ia,fa),(ib,fb) in zip(a.flat_indices(), b.flat_indices()):
            cells.append(self.binop(fn, Val(a.dtype,ha[fa]), Val(b.dtype,hb[fb]), esig, state).t)
        st=Store(); state.heap[st.id]=tuple(cells)
        return Arr(st.id, rt.dtype, a.shape)

    def concrete_int(self, v, what="value"):
        if isinstance(v,int): return v
        if v is None: return None
        c=signed_of(v) if isinstance(v,Val) else None
        if c is None: raise Unsupported(f"symbolic {what}")
        return c

    def getitem(self, state, base, index, sig):
        if isinstance(base, SBytes):
            if isinstance(index, slice) or isinstance(index, tuple) and len(index)==3 and not isinstance(index[0],Val) :
                pass
            if isinstance(index, PySlice):
                n=len(base); s,e,_=slice(index.start,index.stop,None).indices(n)
                return SBytes(base.cells[s:e] if e>s else [])
            i=self.concrete_int(index,"bytes index")
            if not (0<=i<len(base)):
                state.oblig.append(("bytes-oob", z3.And(*state.pc))) ; raise PathAbort("bytes oob")
            return Val(types.uint8, base.cells[i])
        if isinstance(base, FArrR):
            k=zi_of(index.t) if isinstance(index, Val) else None
            if k is None: raise Unsupported("FArrR index is not a math-mode integer")
            # Numba array indexing wraps negative indices (a[-1] is the last element); beyond that it is out of bounds
            kw = z3.If(k<0, k+base.extent, k)
            state.oblig.append(("array-oob", z3.And(*state.pc, z3.Or(kw<0, kw>=base.extent))))
            return Val(types.float64, z3.Select(state.heap[base.sid], kw))
        if isinstance(base, FArr):
            i=cast(index, types.uint64, self)
            state.oblig.append(("array-oob", z3.And(*state.pc, z3.UGE(i.t, base.extent))))
            return Val(base.dtype, z3.Select(state.heap[base.sid], i.t))
        if isinstance(base, Arr):
            idx = index if isinstance(index, tuple) else (index,)
            return self.arr_index(state, base, idx, None)
        if isinstance(base, tuple):
            return base[self.concrete_int(index)]
        raise Unsupported(f"getitem {type(base)}")

    def arr_index(self, state, base, idx, setval, setsig=None):
        """read (setval None) or write through index tuple of Val/PySlice. symbolic ints handled by case split over extent."""
        # normalise
        dims=[]
        for d,ix in enumerate(idx):
            ext=base.shape[d]
            if isinstance(ix, PySlice):
                s,e,_=slice(ix.start,ix.stop,None).indices(ext); dims.append(('s',s,max(e,s)))
            else:
                c=signed_of(ix) if isinstance(ix,Val) else ix
                if c is not None:
                    if c<0: c+=ext
                    if not 0<=c<ext:
                        state.oblig.append(("array-oob", z3.And(*state.pc))); raise PathAbort("oob")
                    dims.append(('c',c))
                else:
                    w=ix.ty.bitwidth
                    state.oblig.append(("array-oob", z3.And(*state.pc, z3.Not(z3.ULT(ix.t, z3.BitVecVal(ext,w))) if not ix.ty.signed else z3.Not(z3.And(ix.t>=0, ix.t<ext)))))
                    dims.append(('v',ix,ext))
        for d in range(len(idx), base.ndim): dims.append(('s',0,base.shape[d]))
        # enumerate concrete choices for symbolic dims
        symdims=[i for i,d in enumerate(dims) if d[0]=='v']
        outshape=[d[2]-d[1] for d in dims if d[0]=='s']
        heap=list(state.heap[base.sid])
        def flat(choice, sub):
            off=base.offset; si=0; ci=0
            for i,d in enumerate(dims):
                if d[0]=='c': off+=d[1]*base.strides[i]
                elif d[0]=='v': off+=choice[ci]*base.strides[i]; ci+=1
                else: off+=(d[1]+sub[si])*base.strides[i]; si+=1
            return off
        choices=list(itertools.product(*[range(dims[i][2]) for i in symdims]))
        def guard(choice):
            g=[dims[i][1].t==z3.BitVecVal(c,dims[i][1].ty.bitwidth) for i,c in zip(symdims,choice)]
            return z3.And(*g) if g else z3.BoolVal(True)
        subs=list(itertools.product(*[range(n) for n in outshape]))
        if setval is None:
            if not symdims and outshape:
                # concrete view
                off=flat((), tuple(0 for _ in outshape))
                strides=[base.strides[i] for i,d in enumerate(dims) if d[0]=='s']
                return Arr(base.sid, base.dtype, outshape, strides, off, base.readonly)
            cells=[]
            for sub in subs:
                t=None
                for ch in reversed(choices):
                    c=heap[flat(ch,sub)]
                    t = c if t is None else z3.If(guard(ch), c, t)
                cells.append(simp(t))
            if not outshape: return Val(base.dtype, cells[0])
            st=Store(); state.heap[st.id]=tuple(cells)
            return Arr(st.id, base.dtype, outshape)
        else:
            # write
            if isinstance(setval, Arr):
                src=[state.heap[setval.sid][f] for _,f in setval.flat_indices()]
                if tuple(setval.shape)!=tuple(outshape):
                    return ('raise', ValueError, 'cannot assign slice')
                srcty=setval.dtype
            else:
                src=[setval.t]*max(1,len(subs)); srcty=setval.ty
            for k,sub in enumerate(subs):
                newv=cast(Val(srcty,src[k]), base.dtype, self).t
                for ch in choices:
                    f=flat(ch,sub)
                    heap[f]= newv if not symdims else simp(z3.If(guard(ch), newv, heap[f]))
            state.heap[base.sid]=tuple(heap)
            return None

    def setitem(self, state, tgt, index, val, sig):
        if isinstance(index,int): index=mk_int(types.int64,index)
        if isinstance(tgt, FArrR):
            if isinstance(index, PySlice) or isinstance(index, slice):
                start=getattr(index,'start',None); stop=getattr(index,'stop',None)
                if (start in (None,0)) and (stop is None or stop==tgt.extent) and isinstance(val, FArrR):
                    if val.extent!=tgt.extent: raise PathAbort(('raise', ValueError, 'shape mismatch'))
                    state.heap[tgt.sid]=state.heap[val.sid]; return
                if isinstance(val, FArrR) and isinstance(start, (int, type(None))) and isinstance(stop, (int, type(None))):
                    # a[lo:hi] = b with concrete bounds: functional update  i -> ite(lo <= i < hi, b[i - lo], a[i])
                    lo = 0 if start is None else (start if start >= 0 else tgt.extent + start)
                    hi = tgt.extent if stop is None else (min(stop, tgt.extent) if stop >= 0 else tgt.extent + stop)
                    if val.extent != max(0, hi - lo): raise PathAbort(('raise', ValueError, 'shape mismatch'))
                    i = z3.Int('slice_i')
                    state.heap[tgt.sid] = z3.Lambda([i], z3.If(z3.And(i >= lo, i < hi), z3.Select(state.heap[val.sid], i - lo), z3.Select(state.heap[tgt.sid], i)))
                    return
                raise Unsupported("FArrR slice assignment with symbolic bounds or a scalar source")
            k=zi_of(index.t)
            if k is None: raise Unsupported("FArrR index is not a math-mode integer")
            state.oblig.append(("array-oob", z3.And(*state.pc, z3.Or(k<0, k>=tgt.extent))))
            state.heap[tgt.sid]=z3.Store(state.heap[tgt.sid], k, cast(val, types.float64, self).t); return
        if isinstance(tgt, FArr):
            i=cast(index, types.uint64, self)
            state.oblig.append(("array-oob", z3.And(*state.pc, z3.UGE(i.t, tgt.extent))))
            state.heap[tgt.sid]=z3.Store(state.heap[tgt.sid], i.t, cast(val, tgt.dtype, self).t)
            return
        idx=index if isinstance(index,tuple) else (index,)
        if not isinstance(tgt, Arr): raise Unsupported("setitem target")
        r=self.arr_index(state, tgt, idx, val, sig)
        if r is not None: raise PathAbort(r)

    def call(self, f, a, kws, sig, state, tty):
        # numba scalar type used as a cast
        if isinstance(f, types.Type) and (is_int(f) or is_float(f) or is_bool(f)):
            return cast(a[0], f, self)
        if isinstance(f, type) and issubclass(f, np.generic):
            return cast(a[0], numba.from_dtype(np.dtype(f)), self)
        if f is bool:
            return cast(a[0], types.boolean, self)
        if f is len:
            x=a[0]
            if isinstance(x,SBytes): return mk_int(types.int64, len(x))
            if isinstance(x,Arr): return mk_int(types.int64, x.shape[0])
        if f is slice:
            return PySlice(self.concrete_int(a[0],"slice start"), self.concrete_int(a[1],"slice stop"))
        if f is range or f is numba.prange:
            rty=unlit(sig.return_type)
            ity = types.uint64 if 'uint64' in str(rty) else types.int64
            if len(a)==1: start,stop=mk_int(ity,0),cast(a[0],ity,self)
            else: start,stop=cast(a[0],ity,self),cast(a[1],ity,self)
            return RangeState(ity,start,stop,mk_int(ity,1))
        if f is abs:
            rt=unlit(sig.return_type); x=cast(a[0],rt,self)
            if is_float(rt):
                if self.fpmode=='real': return Val(rt, z3.If(x.t>=0, x.t, -x.t))
                return Val(rt, z3.fpAbs(x.t))
            if is_int(rt) and rt.signed: return Val(rt, simp(z3.If(x.t<0, -x.t, x.t)))
            return x
        if f is min or f is max:
            rt=unlit(sig.return_type)
            x=cast(a[0],rt,self); y=cast(a[1],rt,self)
            if is_int(rt):
                lt = (x.t<y.t) if rt.signed else z3.ULT(x.t,y.t)
            else: raise Unsupported("float min/max")
            if f is min: return Val(rt, simp(z3.If(lt,x.t,y.t)))
            return Val(rt, simp(z3.If(lt,y.t,x.t)))
        if f is np.random.rand:
            n=self.concrete_int(a[0],"rand size")
            self._nrand=getattr(self,'_nrand',0)+1
            st_=Store()
            if getattr(self,'rand_functional',False):
                state.heap[st_.id]=z3.Array(f"fresh{self._nrand}", z3.IntSort(), z3.RealSort())
                self.fresh_arrays=getattr(self,'fresh_arrays',[])+[st_.id]
                return FArrR(st_.id, n)
            if self.fpmode=='real':
                cells=tuple(z3.Real(f"fresh{self._nrand}_{i}") for i in range(n))
            else:
                cells=tuple(z3.FP(f"fresh{self._nrand}_{i}", FPS) for i in range(n))
            state.heap[st_.id]=cells
            self.fresh_arrays=getattr(self,'fresh_arrays',[])+[st_.id]
            return Arr(st_.id, types.float64, (n,))
        if f is np.count_nonzero:
            x=a[0]; h=state.heap[x.sid]; rt=unlit(sig.return_type)
            if self.fpmode=='real':
                ks=[zi_of(h[fi]) for _,fi in x.flat_indices()]
                if all(k is not None for k in ks):
                    return mathint(z3.Sum([z3.If(k!=0, 1, 0) for k in ks]) if ks else z3.IntVal(0), rt)
            t=z3.BitVecVal(0,rt.bitwidth)
            for _,fi in x.flat_indices():
                t=t+z3.If(h[fi]!=0, z3.BitVecVal(1,rt.bitwidth), z3.BitVecVal(0,rt.bitwidth))
            return Val(rt, simp(t))
        if f is np.searchsorted and self.fpmode=='real' and isinstance(a[0], FArrR):
            # side='left' on a sorted table (the harness assumes sortedness): number of entries strictly below v
            v=cast(a[1], types.float64, self); A=state.heap[a[0].sid]
            return mathint(z3.Sum([z3.If(z3.Select(A, j) < v.t, 1, 0) for j in range(a[0].extent)]), unlit(sig.return_type))
        if f is np.interp and self.fpmode=='real' and isinstance(a[1], FArrR) and isinstance(a[2], FArrR):
            # uninterpreted in (x, xp-table, fp-table) -- congruence decides the unchanged code -- plus the definition of
            # np.interp (clamped piecewise-linear through the knots) instantiated for this application
            x=cast(a[0], types.float64, self); XP=state.heap[a[1].sid]; FP=state.heap[a[2].sid]
            app=Executor.INTERPT(x.t, XP, FP)
            self.interp_axioms.append(app == interp_definition(x.t, XP, FP, a[1].extent))
            return Val(types.float64, app)
        if f is np.interp:
            # table lookup with linear interpolation: uninterpreted in x for the given (xp, fp) table objects
            x=cast(a[0], types.float64, self)
            key=("interp", a[1].sid if hasattr(a[1],'sid') else id(a[1]), a[2].sid if hasattr(a[2],'sid') else id(a[2]))
            self.interp_calls.append((key, x.t))
            if getattr(self,'fpmode','fp')=='real':
                return Val(types.float64, Executor.INTERPR(x.t))
            return Val(types.float64, Executor.INTERP(x.t))
        if f is np.log2:
            x=cast(a[0], types.float64, self)
            return Val(types.float64, (Executor.LOG2R if self.fpmode=='real' else Executor.LOG2)(x.t))
        if f is np.floor or f is math.floor:
            x=cast(a[0], types.float64, self)
            if self.fpmode=='real': return Val(types.float64, z3.ToReal(z3.ToInt(x.t)))
            return Val(types.float64, z3.fpRoundToIntegral(z3.RTN(), x.t))
        if f is np.log or f is np.exp:
            x=cast(a[0], types.float64, self)
            if getattr(self,'fpmode','fp')=='real':
                return Val(types.float64, (Executor.LOGR if f is np.log else Executor.EXPR)(x.t))
            return Val(types.float64, (Executor.LOG if f is np.log else Executor.EXP)(x.t))
        if f is np.frombuffer:
            b=a[0]; dt=a[1]
            dty = dt if isinstance(dt,types.Type) else numba.from_dtype(np.dtype(dt))
            k=dty.bitwidth//8
            if len(b)%k: return [ (state, ('raise',ValueError,'buffer size')) ]
            cells=[]
            for i in range(0,len(b),k):
                chunk=b.cells[i:i+k]
                cells.append(simp(z3.Concat(*reversed(chunk))) if k>1 else chunk[0])   # little endian
            st=Store(); state.heap[st.id]=tuple(cells)
            return Arr(st.id, dty, (len(cells),), readonly=True)
        if f is np.zeros:
            shp=a[0]; dt=a[1]
            dty = dt if isinstance(dt,types.Type) else numba.from_dtype(np.dtype(dt))
            shp = shp if isinstance(shp,tuple) else (shp,)
            shp=[self.concrete_int(s,"zeros shape") for s in shp]
            n=1
            for s in shp: n*=s
            if is_float(dty):
                zero = z3.RealVal(0) if self.fpmode=='real' else z3.FPVal(0.0, FPS)
            else:
                zero = z3.BitVecVal(0,dty.bitwidth)
            st=Store(); state.heap[st.id]=tuple(zero for _ in range(n))
            return Arr(st.id,dty,shp)
        if f is np.all:
            x=a[0]; h=state.heap[x.sid]
            return Val(types.boolean, simp(z3.And(*[h[fi] for _,fi in x.flat_indices()])) if x.size() else z3.BoolVal(True))
        if isinstance(f, Dispatcher):
            outs=self.call_dispatcher(f, state, a, sig)
            return outs
        if isinstance(f, type) and issubclass(f, BaseException):
            return ('exc', f, tuple(a))
        raise Unsupported(f"call {f}")

class PySlice:
    def __init__(self,start,stop): self.start=start; self.stop=stop
