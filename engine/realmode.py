"""Real-idealised obligations for the log counters: floats are mathematical reals, `**`/np.log are uninterpreted
functions over the reals constrained only by instances of their algebraic laws (listed in AXIOMS).  Everything proved
here is 'in exact real arithmetic; rounding is outside the claim'."""
import itertools
import z3
from engine import common, cmh, logh
from engine.kit import zx, ev
from engine.nbsym import Executor, State, Val, types, mk_int, Unsupported

N_IDEAL_GROUPS = 15
AXIOMS = ["pow(b,0) = 1", "pow(b,x) > 0", "x < y <=> pow(b,x) < pow(b,y)  (b > 1)", "y = x+1 => pow(b,y) = b*pow(b,x)",
          "X = pow(b,x) => log(X) = x*log(b)", "0 < X < pow(b,x) => log(X) < x*log(b)", "X > pow(b,x) => log(X) > x*log(b)", "X > 1 => log(X) > 0", "log(b) > 0 (b > 1)", "X < Y <=> log(X) < log(Y) (X,Y > 0)",
          "e <= log(X)/log(b) <=> pow(b,e) <= X  (X > 0, b > 1)"]


def _walk(terms, pred):
    out, seen = {}, set()

    def go(t):
        if t.get_id() in seen:
            return
        seen.add(t.get_id())
        if z3.is_app(t):
            if pred(t):
                out[t.get_id()] = t
            for c in t.children():
                go(c)
    for t in terms:
        go(t)
    return list(out.values())


def instantiate(terms, base):
    """axiom instances for every powr / logr application occurring in `terms`"""
    pows = _walk(terms, lambda t: t.decl().name() == "powr")
    logs = _walk(terms, lambda t: t.decl().name() == "logr")
    divs = _walk(terms, lambda t: t.decl().kind() == z3.Z3_OP_DIV and len(t.children()) == 2 and all(z3.is_app(c) and c.decl().name() == "logr" for c in t.children()))
    ax = []
    for p in pows:
        b, e = p.arg(0), p.arg(1)
        ax.append(z3.Implies(e == 0, p == 1))
        ax.append(p > 0)
    for p, q in itertools.combinations(pows, 2):
        if not p.arg(0).eq(q.arg(0)):
            continue
        b = p.arg(0)
        ax.append((p.arg(1) < q.arg(1)) == (p < q))
        ax.append((p.arg(1) == q.arg(1)) == (p == q))
        ax.append(z3.Implies(q.arg(1) == p.arg(1) + 1, q == b * p))
        ax.append(z3.Implies(p.arg(1) == q.arg(1) + 1, p == b * q))
    # redundant definitional lemmas for real divisions (help the non-linear core): q != 0 => (p/q)*q = p
    for dv in _walk(terms, lambda t: t.decl().kind() == z3.Z3_OP_DIV and len(t.children()) == 2 and t.sort() == z3.RealSort()):
        ax.append(z3.Implies(dv.arg(1) != 0, dv * dv.arg(1) == dv.arg(0)))
    Lb = Executor.LOGR(base)
    ax.append(Lb > 0)
    for lg in logs:
        X = lg.arg(0)
        for p in pows:
            el = p.arg(1) * Executor.LOGR(p.arg(0))
            ax.append(z3.Implies(X == p, lg == el))
            ax.append(z3.Implies(z3.And(X > 0, X < p), lg < el))
            ax.append(z3.Implies(X > p, lg > el))
        ax.append(z3.Implies(X == 1, lg == 0))
        ax.append(z3.Implies(X > 1, lg > 0))
    for l1, l2 in itertools.combinations(logs, 2):
        ax.append(z3.Implies(z3.And(l1.arg(0) > 0, l2.arg(0) > 0), (l1.arg(0) < l2.arg(0)) == (l1 < l2)))
    for d in divs:
        X, b = d.arg(0).arg(0), d.arg(1).arg(0)
        # d = log(X)/log(b); for any exponent e: e <= d  <=>  pow(b,e) <= X   (X > 0, b > 1)
        for p in pows:
            if p.arg(0).eq(b):
                ax.append(z3.Implies(X > 0, (p.arg(1) <= d) == (p <= X)))
    return ax, dict(pows=len(pows), logs=len(logs), log_ratios=len(divs))


def value_ref(c_int, nr_int, base):
    """documented decoding over the reals; c_int, nr_int are z3 Int terms"""
    c, n = z3.ToReal(c_int), z3.ToReal(nr_int)
    return z3.If(c_int <= nr_int, c, (Executor.POWR(base, c - n) - 1) / (base - 1) + n)


def ob_merge_ideal(bits, timeout_ms, only=None, pin=None):
    """pin=(a, b): the two counters are these concrete values (None = symbolic): boundary pairs such as (ceiling, 0) stay
    cheap whatever data structure the kernel decodes through (a 256-entry lookup table read at a symbolic index is a
    256-way case split, at a concrete index it is one entry)"""
    C = cmh.cm()
    stats = common.Stats()
    ex = Executor(fpmode="real", loop_bound=300)
    st = State()
    a = cmh.SymCM(st, "a", bits, 1, 1)
    b = cmh.SymCM(st, "b", bits, 1, 1)
    U = cmh.U[bits]
    umax = logh.UMAX[bits]
    base = z3.Real("base")
    # math mode: every integer is a mathematical Int k carried as Int2BV(k, w) with its range assumed
    caI, cbI, nrI, mI = z3.Ints("ca cb num_reserved max_count")
    if pin is not None:
        caI = z3.IntVal(pin[0]) if pin[0] is not None else caI
        cbI = z3.IntVal(pin[1]) if pin[1] is not None else cbI
    nA, nB = [z3.Int(f"nar_a{i}") for i in range(2)], [z3.Int(f"nar_b{i}") for i in range(2)]
    st.heap[a.cms.sid] = (z3.Int2BV(caI, bits),)
    st.heap[b.cms.sid] = (z3.Int2BV(cbI, bits),)
    st.heap[a.nar.sid] = tuple(z3.Int2BV(k, 64) for k in nA)
    st.heap[b.nar.sid] = tuple(z3.Int2BV(k, 64) for k in nB)
    nr = z3.Int2BV(nrI, bits)
    maxc = z3.Int2BV(mI, 64)
    st.pc += [base > 1, caI >= 0, caI <= umax, cbI >= 0, cbI <= umax, nrI >= 0, nrI < umax, mI > nrI, mI < (1 << 63)] + [z3.And(k >= 0, k < (1 << 62)) for k in nA + nB]
    pre = dict(st.heap)
    disp = C._merge_log16 if bits == 16 else C._merge_log8
    args = [a.cms, b.cms, mk_int(types.uint64, 1), mk_int(types.uint64, 1), Val(types.uint64, maxc), mk_int(U, umax), Val(U, nr), Val(types.float64, base), a.nar, b.nar]
    post, _ = cmh.run1(ex, disp, st, args)
    funcs = sorted(ex.funcs_encoded)
    # the same kernel the other way round (b.merge(a)) on the same symbolic cells, for commutativity
    st2 = State()
    st2.heap = dict(pre)
    ex2 = Executor(fpmode="real", loop_bound=300)
    st2.pc = [base > 1, caI >= 0, caI <= umax, cbI >= 0, cbI <= umax, nrI >= 0, nrI < umax, mI > nrI, mI < (1 << 63)]
    post2, _ = cmh.run1(ex2, disp, st2, [b.cms, a.cms, mk_int(types.uint64, 1), mk_int(types.uint64, 1), Val(types.uint64, maxc), mk_int(U, umax), Val(U, nr), Val(types.float64, base), b.nar, a.nar])
    ca, cb, res = pre[a.cms.sid][0], pre[b.cms.sid][0], post.heap[a.cms.sid][0]
    from engine.nbsym import zi_of
    rI = zi_of(res)
    if rI is None:
        return {"status": "unknown", "funcs": funcs, "note": "result cell is not in mathematical-integer form: " + str(res)[:200]}
    v = value_ref(caI, nrI, base) + value_ref(cbI, nrI, base)
    val = lambda k: value_ref(k, nrI, base)
    # configuration invariant established by _find_base (idealised): the ceiling decodes to max_count
    cfg_inv = val(z3.IntVal(umax)) == z3.ToReal(mI)
    general = z3.And(v > z3.ToReal(nrI), v < z3.ToReal(mI))
    absd = lambda x: z3.If(x >= 0, x, -x)
    goals = [
        ("general region: the merged counter brackets the decoded sum: value(c) <= v < value(c+1) or value(c-1) <= v < value(c)",
         z3.Implies(general, z3.Or(z3.And(val(rI) <= v, v < val(rI + 1)), z3.And(val(rI - 1) <= v, v < val(rI))))),
        ("general region: if the merged counter is the lower bracket, the sum is not nearer to the upper one (v - value(c) <= value(c+1) - v)",
         z3.Implies(z3.And(general, val(rI) <= v, v < val(rI + 1)), v - val(rI) <= val(rI + 1) - v)),
        ("general region: if the merged counter is the upper bracket, the sum is strictly nearer to it (ties go down)",
         z3.Implies(z3.And(general, val(rI - 1) <= v, v < val(rI)), val(rI) - v < v - val(rI - 1))),
        ("merging an empty cell is the identity (all counters)", z3.Implies(z3.And(cbI == 0, caI < umax), rI == caI)),
        ("merged counter is never below either input", z3.And(rI >= caI, rI >= cbI)),
        ("decoded sum >= max_count => ceiling", z3.Implies(v >= z3.ToReal(mI), rI == umax)),
        ("reserved range exact", z3.Implies(v <= z3.ToReal(nrI), rI == caI + cbI)),
        ("lower bound through merges: merged counter >= min(a + b, num_reserved + 1)", z3.If(caI + cbI <= nrI, rI >= caI + cbI, rI >= nrI + 1)),
        ("commutative: a.merge(b) and b.merge(a) give the same counter", rI == zi_of(post2.heap[b.cms.sid][0])),
        ("argument untouched, n_added / n_records summed",
         z3.And(zi_of(post.heap[b.cms.sid][0]) == cbI, zi_of(post.heap[a.nar.sid][0]) == nA[0] + nB[0], zi_of(post.heap[a.nar.sid][1]) == nA[1] + nB[1],
                zi_of(post.heap[b.nar.sid][0]) == nB[0], zi_of(post.heap[b.nar.sid][1]) == nB[1])),
    ]
    for (cond, _ty) in ex.fp2int:
        if z3.is_expr(cond) and z3.is_bool(cond):
            goals.append(("float -> unsigned casts stay in range (no undefined behaviour)", z3.Not(cond)))
    assume = list(post.pc) + list(post2.pc) + [cfg_inv] + list(ex.trunc_defs) + list(ex2.trunc_defs)
    for i, (kind, cond) in enumerate(post.oblig):
        goals.append((f"no wrap-around / division by zero [{i}] {kind}", z3.Not(cond)))
    insts = {}
    if only == "WITNESS":
        # reachability twin: the general (log-domain) region and the upper-bracket choice are reachable under the assumptions
        ax, cnt = instantiate(assume + [general], base)
        r1, _ = common.z3check_race(assume + ax + [general, val(rI - 1) <= v, v < val(rI), rI > nrI + 1], timeout_ms, stats, label=f"witness: _merge_log{bits} rounds up in the log domain")
        r2, _ = common.z3check_race(assume + ax + [v >= z3.ToReal(mI), caI < umax, cbI < umax], timeout_ms, stats, label=f"witness: _merge_log{bits} saturates from two unsaturated counters")
        ok = r1 == "sat" and r2 == "sat"
        return {"status": "witness" if ok else "nowitness", "stats": stats.as_dict(), "note": None if ok else f"{r1},{r2}"}
    if isinstance(only, str):
        goals = [g for g in goals if only in g[0]]
        if not goals:
            return {"status": "error", "note": f"no goal matches {only!r}", "funcs": funcs}
    elif only is not None:
        goals = [g for i, g in enumerate(goals) if i % N_IDEAL_GROUPS == only]
    for name, g in goals:
        ax, cnt = instantiate(assume + [g], base)
        insts[name] = cnt
        r, m = common.z3check_race(assume + ax + [z3.Not(g)], timeout_ms, stats, label=f"_merge_log{bits} real-idealised: {name}")
        if r == "unsat":
            continue
        if r != "sat":
            return {"status": "unknown", "stats": stats.as_dict(), "funcs": funcs, "note": f"{r} on {name}", "axiom_instances": insts}
        # idealised counterexample: candidates for a real witness are searched by the replay sweep of the configuration grid
        from engine import logm
        for cfg in logh.CONFIGS[bits]:
            cex = {"kind": "log-merge", "bits": bits, "max_count": cfg[0], "num_reserved": cfg[1], "clause": name + " (real-idealised model; concrete witness searched by sweeping the row of all counters)",
                   "a": m.eval(caI, model_completion=True).as_long(), "b": m.eval(cbI, model_completion=True).as_long(), "sweep": True}
            rp = logm.replay(cex)
            if rp.get("reproduced"):
                return {"status": "cex", "stats": stats.as_dict(), "funcs": funcs, "cex": cex, "replay": rp, "finding_key": f"log{bits}-merge-ideal"}
        return {"status": "cex", "stats": stats.as_dict(), "funcs": funcs, "cex": cex, "replay": rp, "finding_key": f"log{bits}-merge-ideal"}
    return {"status": "proved", "stats": stats.as_dict(), "funcs": funcs, "axiom_instances": insts}
