"""Reference models, written independently of /repo: the published FastHash / MurmurHash3_x86_32 algorithms
as (a) plain Python over ints (used for replay and pinned to the SMHasher verification constants) and
(b) z3 terms over lists of 8-bit terms (used as the oracle in solver queries)."""
import z3

M64 = (1 << 64) - 1
M32 = (1 << 32) - 1


# ---------------------------------------------------------------- plain python
def py_mix(h):
    h ^= h >> 23
    h = (h * 0x2127599BF4325C37) & M64
    h ^= h >> 47
    return h


def py_fh64(b, seed):
    m = 0x880355F21E6D1965
    n = len(b)
    h = (seed ^ ((n * m) & M64)) & M64
    for i in range(n // 8):
        v = int.from_bytes(b[8 * i:8 * i + 8], "little")
        h = ((h ^ py_mix(v)) * m) & M64
    t = b[8 * (n // 8):]
    if t:
        h = ((h ^ py_mix(int.from_bytes(t, "little"))) * m) & M64
    return py_mix(h)


def py_fh32(b, seed):
    h = py_fh64(b, seed)
    return (h - (h >> 32)) & M32


def _rotl(x, r):
    return ((x << r) | (x >> (32 - r))) & M32


def py_mm3(b, seed):
    c1 = 0xCC9E2D51
    c2 = 0x1B873593
    n = len(b)
    h = seed & M32
    for i in range(n // 4):
        k = int.from_bytes(b[4 * i:4 * i + 4], "little")
        k = (k * c1) & M32
        k = _rotl(k, 15)
        k = (k * c2) & M32
        h ^= k
        h = _rotl(h, 13)
        h = (h * 5 + 0xE6546B64) & M32
    t = b[4 * (n // 4):]
    if t:
        k = int.from_bytes(t, "little")
        k = (k * c1) & M32
        k = _rotl(k, 15)
        k = (k * c2) & M32
        h ^= k
    h ^= n
    h ^= h >> 16
    h = (h * 0x85EBCA6B) & M32
    h ^= h >> 13
    h = (h * 0xC2B2AE35) & M32
    h ^= h >> 16
    return h


def smhasher_verification(fn, bits):
    """SMHasher's VerificationTest: hash keys {0},{0,1},... with seed 256-i, hash the concatenation with seed 0."""
    keys = bytes(range(256))
    hashes = b""
    for i in range(256):
        hashes += fn(keys[:i], 256 - i).to_bytes(bits // 8, "little")
    f = fn(hashes, 0).to_bytes(bits // 8, "little")
    return int.from_bytes(f[:4], "little")


PINS = {"murmur3": 0xB0F57EE3, "fasthash32": 0xE9481AFC, "fasthash64": 0xA16231A7}


def check_pins():
    got = {"murmur3": smhasher_verification(py_mm3, 32), "fasthash32": smhasher_verification(py_fh32, 32),
           "fasthash64": smhasher_verification(py_fh64, 64)}
    extra = {"mm3('',1)": (py_mm3(b"", 1), 0x514E28B7), "mm3('abc',0)": (py_mm3(b"abc", 0), 0xB3DD93FA),
             "mm3('',0)": (py_mm3(b"", 0), 0)}
    ok = all(got[k] == PINS[k] for k in PINS) and all(a == b for a, b in extra.values())
    return ok, {k: hex(v) for k, v in got.items()}


# ---------------------------------------------------------------- z3 terms
def c64(v):
    return z3.BitVecVal(v, 64)


def c32(v):
    return z3.BitVecVal(v, 32)


def z_ref_hashes(mul):
    """mul(x, y, width) -> term: multiplication operator (precise bvmul or the uninterpreted MULw)."""

    def mix(h):
        h = h ^ z3.LShR(h, 23)
        h = mul(h, c64(0x2127599BF4325C37), 64)
        h = h ^ z3.LShR(h, 47)
        return h

    def fh64(bs, seed):
        m = c64(0x880355F21E6D1965)
        n = len(bs)
        h = seed ^ c64((n * 0x880355F21E6D1965) & M64)
        for i in range(n // 8):
            v = z3.Concat(*reversed(bs[8 * i:8 * i + 8]))
            h = mul(h ^ mix(v), m, 64)
        tail = bs[8 * (n // 8):]
        if tail:
            v = c64(0)
            for j, b in enumerate(tail):
                v = v ^ (z3.ZeroExt(56, b) << (8 * j))
            h = mul(h ^ mix(v), m, 64)
        return mix(h)

    def fh32(bs, seed):
        h = fh64(bs, seed)
        return z3.Extract(31, 0, h - z3.LShR(h, 32))

    def mm3(bs, seed):
        c1 = c32(0xCC9E2D51)
        c2 = c32(0x1B873593)
        n = len(bs)
        h = seed
        for i in range(n // 4):
            k = z3.Concat(*reversed(bs[4 * i:4 * i + 4]))
            k = mul(k, c1, 32)
            k = z3.RotateLeft(k, 15)
            k = mul(k, c2, 32)
            h = h ^ k
            h = z3.RotateLeft(h, 13)
            h = mul(h, c32(5), 32) + c32(0xE6546B64)
        tail = bs[4 * (n // 4):]
        if tail:
            k = c32(0)
            for j, b in enumerate(tail):
                k = k ^ (z3.ZeroExt(24, b) << (8 * j))
            k = mul(k, c1, 32)
            k = z3.RotateLeft(k, 15)
            k = mul(k, c2, 32)
            h = h ^ k
        h = h ^ c32(n)
        h = h ^ z3.LShR(h, 16)
        h = mul(h, c32(0x85EBCA6B), 32)
        h = h ^ z3.LShR(h, 13)
        h = mul(h, c32(0xC2B2AE35), 32)
        h = h ^ z3.LShR(h, 16)
        return h

    return {"fasthash64": fh64, "fasthash32": fh32, "murmur3": mm3}
