"""v2 shim: scalar types are real classes (isinstance works), small concrete-shaped arrays with numpy-like indexing."""
import sys, types as _pytypes, itertools
CALLS=[]
class NbSig:
    def __init__(self, ret, args): self.ret=ret; self.args=args
class ArrType:
    def __init__(self, base): self.base=base
def _is_typeish(x): return isinstance(x,(NbMeta,ArrType,NbSig,_Opaque))
class _Opaque:
    def __init__(self,n): self.n=n
    def __call__(self,*a): return NbSig(self,a)
class NbMeta(type):
    def __getitem__(cls, idx): return ArrType(cls)
    def __call__(cls, *a, **k):
        if len(a)!=1 or _is_typeish(a[0]): return NbSig(cls, a)
        return type.__call__(cls, a[0])
class NPScalar(metaclass=NbMeta):
    bits=64; signed=False; isfloat=False
    def __init__(self, v):
        if isinstance(v, NPScalar):
            # conversion between numpy scalars wraps silently (only Python ints are range-checked by NumPy 2)
            v=v.v
            if not self.isfloat and isinstance(v, int):
                v = v & ((1<<self.bits)-1)
                if self.signed and v >= (1<<(self.bits-1)): v -= (1<<self.bits)
        if self.isfloat: self.v=float(v); return
        if not isinstance(v,int): v=int(v)
        if self.signed:
            if not (-(1<<(self.bits-1)) <= v < (1<<(self.bits-1))): raise OverflowError("Python integer out of bounds for "+type(self).__name__)
        else:
            if not (0 <= v < (1<<self.bits)): raise OverflowError("Python integer out of bounds for "+type(self).__name__)
        self.v=v
    @property
    def dtype(self): return type(self)
    def _o(self,o): return o.v if isinstance(o,NPScalar) else o
    def __eq__(self,o): return self.v==self._o(o)
    def __ne__(self,o): return self.v!=self._o(o)
    def __lt__(self,o): return self.v<self._o(o)
    def __le__(self,o): return self.v<=self._o(o)
    def __gt__(self,o): return self.v>self._o(o)
    def __ge__(self,o): return self.v>=self._o(o)
    def __int__(self): return int(self.v)
    def __index__(self): return self.v
    def __float__(self): return float(self.v)
    def __hash__(self): return hash(self.v)
    def __bool__(self): return self.v!=0
    def _wrap(self, x):
        if self.isfloat: return type(self)(x)
        return type(self)(x & ((1<<self.bits)-1)) if not self.signed else type(self)(x)
    def __add__(self,o): return self._wrap(self.v+self._o(o))
    __radd__=__add__
    def __sub__(self,o): return self._wrap(self.v-self._o(o))
    def __rsub__(self,o): return self._wrap(self._o(o)-self.v)
    def __mul__(self,o):
        if isinstance(o,float) or (isinstance(o,NPScalar) and o.isfloat): return float64(float(self.v)*float(self._o(o)))
        return self._wrap(self.v*self._o(o))
    __rmul__=__mul__
    def __mod__(self,o): return self._wrap(self.v % self._o(o))
    def __lshift__(self,o): return self._wrap(self.v<<self._o(o))
    def __truediv__(self,o): return float64(float(self.v)/float(self._o(o)))
    def __rtruediv__(self,o): return float64(float(self._o(o))/float(self.v))
    def __repr__(self): return f"{type(self).__name__}({self.v})"
def _mk(name,bits,signed=False,isfloat=False): return NbMeta(name,(NPScalar,),dict(bits=bits,signed=signed,isfloat=isfloat))
uint8=_mk("uint8",8); uint16=_mk("uint16",16); uint32=_mk("uint32",32); uint64=_mk("uint64",64)
int8=_mk("int8",8,True); int32=_mk("int32",32,True); int64=_mk("int64",64,True)
float32=_mk("float32",32,True,True); float64=_mk("float64",64,True,True)
bool_=_mk("bool_",8)

def _ai(x):
    """int-like value without forcing realisation of symbolic ints"""
    return x.v if isinstance(x, NPScalar) else x
def _is_plain_int(x):
    try:
        from crosshair.tracers import NoTracing, is_tracing
    except Exception:
        return type(x) is int
    if not is_tracing():
        return type(x) is int
    with NoTracing():
        return type(x) is int


class Sparse:
    """flat storage that does not allocate: unwritten cells read as 0 (so a symbolic shape costs nothing).
    Concrete offsets live in a dict; symbolic offsets in an association list compared with == (hashing a symbolic int
    would force CrossHair to enumerate its values)."""
    def __init__(self): self.d={}; self.sym=[]
    def __getitem__(self, i):
        if _is_plain_int(i) and not self.sym: return self.d.get(i, 0)
        for k,v in reversed(self.sym):
            if k == i: return v
        if _is_plain_int(i): return self.d.get(i, 0)
        for k,v in self.d.items():
            if k == i: return v
        return 0
    def __setitem__(self, i, v):
        if _is_plain_int(i) and not self.sym: self.d[i]=v
        else: self.sym.append((i, v))
    def snapshot(self):
        out=dict(self.d)
        for n,(k,v) in enumerate(self.sym): out[("sym", n)]=(k, v)
        return out

class SArr:
    """array, row-major, sparse storage of python values (ints possibly symbolic)."""
    def __init__(self, shape, dtype, data=None):
        self.shape=tuple(_ai(s) for s in (shape if isinstance(shape,(tuple,list)) else (shape,))); self.dtype=dtype
        self.data=data if data is not None else Sparse()
        self.off=0; self.strides=self._cs(self.shape)
    @staticmethod
    def _cs(shape):
        st=[]; s=1
        for d in reversed(shape): st.insert(0,s); s*=d
        return tuple(st)
    def _view(self, shape, strides, off):
        v=SArr.__new__(SArr); v.shape=tuple(shape); v.dtype=self.dtype; v.data=self.data; v.off=off; v.strides=tuple(strides); return v
    @property
    def nbytes(self):
        n=self.dtype.bits//8
        for d in self.shape: n*=d
        return n
    def _norm(self, idx):
        idx=idx if isinstance(idx,tuple) else (idx,)
        off=self.off; shape=[]; strides=[]
        d=-1
        for ix in idx:
            if ix is None:               # np.newaxis: a broadcast axis of length 1
                shape.append(1); strides.append(0); continue
            d+=1
            if isinstance(ix,slice):
                n=self.shape[d]
                s0=0 if ix.start is None else _ai(ix.start); e0=n if ix.stop is None else _ai(ix.stop)
                if s0<0: s0=max(0,s0+n)
                if e0<0: e0=max(0,e0+n)
                s0=min(s0,n); e0=min(e0,n)
                ln=e0-s0 if e0>s0 else 0
                off+=s0*self.strides[d]; shape.append(ln); strides.append(self.strides[d])
            else:
                i=_ai(ix)
                if i<0: i+=self.shape[d]
                if not 0<=i<self.shape[d]: raise IndexError("index out of bounds")
                off+=i*self.strides[d]
        for d in range(d+1, len(self.shape)): shape.append(self.shape[d]); strides.append(self.strides[d])
        return off,shape,strides
    def __getitem__(self, idx):
        off,shape,strides=self._norm(idx)
        if not shape: return self.dtype(self.data[off]) if not self.dtype.isfloat else self.data[off]
        return self._view(shape,strides,off)
    def _offsets(self):
        for ix in itertools.product(*[range(s) for s in self.shape]): yield self.off+sum(i*s for i,s in zip(ix,self.strides))
    def __setitem__(self, idx, val):
        off,shape,strides=self._norm(idx)
        if not shape:
            self.data[off]=self.dtype(val).v if not self.dtype.isfloat else float(val); return
        tgt=self._view(shape,strides,off)
        if isinstance(val,SArr):
            if tuple(val.shape)!=tuple(shape): raise ValueError(f"cannot assign slice of shape {tuple(shape)} from input of shape {val.shape}")
            for o,so in zip(tgt._offsets(), val._offsets()): self.data[o]=val.data[so]
        else:
            for o in tgt._offsets(): self.data[o]=self.dtype(val).v
    def __iter__(self):
        if len(self.shape)==1:
            for o in self._offsets(): yield self.data[o]     # raw (possibly symbolic) ints so CrossHair's bytes() builds SymbolicBytes
        else:
            for i in range(self.shape[0]): yield self[i]
    def __len__(self): return self.shape[0]
    def __bytes__(self): return bytes(self.tolist())
    def __eq__(self, o):
        if isinstance(o,SArr): return [self.data[a]==o.data[b] for a,b in zip(self._offsets(), o._offsets())]
        return [self.data[a]==o for a in self._offsets()]
    def _cmp(self, o, f):
        if isinstance(o,SArr): vals=[f(self.data[a], o.data[b]) for a,b in zip(self._offsets(), o._offsets())]
        else: vals=[f(self.data[a], _ai(o)) for a in self._offsets()]
        return SArr(self.shape, bool_, vals)
    def __gt__(self, o): return self._cmp(o, lambda x,y: x>y)
    def __ge__(self, o): return self._cmp(o, lambda x,y: x>=y)
    def __lt__(self, o): return self._cmp(o, lambda x,y: x<y)
    def __le__(self, o): return self._cmp(o, lambda x,y: x<=y)
    def __ne__(self, o): return self._cmp(o, lambda x,y: x!=y)
    def reshape(self,*shape):
        shape=shape[0] if len(shape)==1 and isinstance(shape[0],(tuple,list)) else shape
        v=SArr(tuple(_ai(s) for s in shape), self.dtype, self.data); return v
    def tolist(self): return [self.data[o] for o in self._offsets()]
    def tobytes(self):
        if self.dtype.bits == 8 and not self.dtype.isfloat: return bytes(self.tolist())
        out = b""
        for v in self.tolist(): out += int(v).to_bytes(self.dtype.bits // 8, "little")
        return out
    def copy(self): return SArr(self.shape, self.dtype, [self.data[o] for o in self._offsets()])
    def flatten(self): return SArr((len(self.tolist()),), self.dtype, self.tolist())
    @property
    def size(self):
        n = 1
        for d in self.shape: n *= d
        return n
    @property
    def ndim(self): return len(self.shape)

def _sigcast(T, x):
    """Numba converts arguments and the return value to the types of an explicit signature, wrapping silently.  Only
    conversions that can change the value are modelled (a narrower or signed integer type); same-class values and
    64-bit unsigned / float / array / opaque parameters pass through untouched, so untouched kernels cost nothing."""
    if not isinstance(T, NbMeta) or T.isfloat or isinstance(x, T): return x
    if T.bits >= 64 and not T.signed: return x
    if isinstance(x, NPScalar):
        if x.isfloat: return x
        return T(x)                      # numpy-scalar -> numpy-scalar conversion wraps (see NPScalar.__init__)
    if isinstance(x, bool) or not isinstance(x, int): return x
    v = x & ((1 << T.bits) - 1)
    if T.signed and v >= (1 << (T.bits - 1)): v -= (1 << T.bits)
    return T(v)
class Kernel:
    def __init__(self, fn, sig=None): self.py_func=fn; self.__name__=fn.__name__; self.impl=fn; self.record=True; self.sig=sig if isinstance(sig, NbSig) else None
    def __call__(self, *args):
        if self.sig is not None and len(self.sig.args)==len(args): args=tuple(_sigcast(T,a) for T,a in zip(self.sig.args,args))
        if self.record: CALLS.append((self.__name__, args))
        out=self.impl(*args)
        if self.sig is not None and self.impl is self.py_func: out=_sigcast(self.sig.ret, out)
        return out
def njit(*a, **k):
    if len(a)==1 and callable(a[0]) and not _is_typeish(a[0]): return Kernel(a[0])
    sig=a[0] if a else None
    if isinstance(sig,(list,tuple)) and sig: sig=sig[0]
    return lambda fn: Kernel(fn, sig)
class _Types:
    uint8=uint8; uint16=uint16; uint32=uint32; uint64=uint64; int8=int8; int32=int32; int64=int64; float32=float32; float64=float64
    void=_Opaque("void")
    def Bytes(self,*a): return _Opaque("bytes")
    def Tuple(self,a): return _Opaque("tuple")
numba=_pytypes.ModuleType("numba")
for c in (uint8,uint16,uint32,uint64,int8,int32,int64,float32,float64): setattr(numba,c.__name__,c)
numba.types=_Types(); numba.njit=njit; numba.prange=range
numpy=_pytypes.ModuleType("numpy")
for c in (uint8,uint16,uint32,uint64,int8,int32,int64,float32,float64): setattr(numpy,c.__name__,c)
numpy.generic=NPScalar; numpy.ndarray=SArr; numpy.newaxis=None; numpy.bool_=bool_
numpy.zeros=lambda shape,dtype=float64: SArr(shape,dtype)
def _frombuffer(buf,dtype):
    if isinstance(buf,(bytes,bytearray)): return SArr((len(buf),),dtype,list(buf))
    raise TypeError("frombuffer shim")
numpy.frombuffer=_frombuffer
numpy.all=lambda x: all(x) if isinstance(x,list) else all(x.tolist())
numpy.array=lambda data,dtype=None: data
def _copyto(dst,src,where=None):
    if where is None:
        dst[tuple(slice(None) for _ in dst.shape)]=src; return
    # masked copy with numpy broadcasting of the mask's length-1 axes
    for ix in itertools.product(*[range(n) for n in dst.shape]):
        wix=tuple(0 if where.shape[d]==1 else ix[d] for d in range(len(where.shape))) if isinstance(where,SArr) else None
        w=where[wix] if wix is not None else where
        if w: dst[ix]=src[ix] if isinstance(src,SArr) else src
numpy.copyto=_copyto
def install():
    sys.modules["numba"]=numba; sys.modules["numpy"]=numpy

# ---- in-memory npz model (dtype preserving) -------------------------------------
_FILES={}
class _Npz(dict):
    def __enter__(self): return self
    def __exit__(self,*a): return False
def to_f64(v):
    """float64 of a (possibly symbolic) non-negative int, rounding to nearest-even above 2^53 like IEEE does
    (CrossHair's floats are reals, so the rounding is modelled explicitly)"""
    if isinstance(v, NPScalar):
        v = v.v
    if isinstance(v, float) or not isinstance(v, int):
        return float(v)
    if -(1 << 53) <= v <= (1 << 53):
        return float(v)
    if v < 0:
        return -to_f64(-v)
    for sft in range(1, 12):
        if v < (1 << (53 + sft)):
            q, r = v >> sft, v & ((1 << sft) - 1)
            half = 1 << (sft - 1)
            if r > half or (r == half and (q & 1) == 1):
                q += 1
            return float(q << sft)
    return float(v)


def to_f32(v):
    """float32 storage is lossy for anything but small integers: modelled as a definite relative perturbation of 2^-25
    (CrossHair's floats are reals; an exact float32 rounding is not expressible).  A counterexample that depends on this
    is only reported after it reproduces on the real library."""
    if isinstance(v, NPScalar):
        v = v.v
    if isinstance(v, int) and not isinstance(v, bool):
        return float(v) if -(1 << 24) <= v <= (1 << 24) else float(v) * (1.0 + 2.0 ** -25)
    return v * (1.0 + 2.0 ** -25)


def _array(data, dtype=None):
    if isinstance(data, SArr): return data
    if isinstance(data, NPScalar): 
        a=SArr((), type(data), [data.v]); return a
    kinds=[("f" if (isinstance(x, NPScalar) and x.isfloat) or isinstance(x, float) else ("u" if isinstance(x, NPScalar) and not x.signed else "i")) for x in data]
    vals=[_ai(x) for x in data]
    if dtype is None:
        # numpy's result type: floats win; unsigned numpy scalars alone -> uint64; uint64 mixed with Python ints or signed
        # scalars has no common integer type -> float64 (values above 2^53 are rounded!)
        if "f" in kinds: dtype=float64
        elif "i" in kinds and any(isinstance(x, NPScalar) and not x.signed and x.bits==64 for x in data): dtype=float64
        elif "i" in kinds: dtype=int64
        else: dtype=uint64
    if dtype.isfloat: vals=[(to_f32(v) if dtype.bits == 32 else to_f64(v)) for v in vals]
    return SArr((len(vals),), dtype, vals)
def _copy(a):
    if isinstance(a, SArr):
        b=SArr(a.shape, a.dtype, [a.data[o] for o in a._offsets()]); return b
    if isinstance(a, NPScalar): return SArr((), type(a), [a.v])
    return a
def _savez(filename, **arrays): _FILES[str(filename)]=_Npz((k,_copy(v)) for k,v in arrays.items())
def _load(filename): 
    if str(filename) not in _FILES: raise FileNotFoundError(filename)
    return _FILES[str(filename)]
numpy.array=_array; numpy.savez=_savez; numpy.load=_load


# ================================================================================================ v3 additions
# (appended for the /verif framework: random, SharedMemory, multiprocessing, helpers to load the real sources)
import builtins as _bi


RNG = {"tok": 12345, "log": []}      # the harness may set RNG["tok"] (what integers() returns, possibly symbolic)


class _Rng:
    def __init__(self, seed=None):
        self.seed = seed
        RNG["log"].append(("default_rng", seed, self))

    def integers(self, lo, hi=None):
        if hi is None:
            lo, hi = 0, lo
        RNG["log"].append(("integers", self, lo, hi, RNG["tok"]))
        return RNG["tok"]

    def random(self, n):
        RNG["log"].append(("random", self, n))
        return SArr((n,), float64, [0.5] * _ai(n))


class _Random:
    @staticmethod
    def default_rng(seed=None):
        return _Rng(seed)

    @staticmethod
    def rand(n):
        return SArr((n,), float64, [0.25] * _ai(n))

    @staticmethod
    def seed(s):
        return None


numpy.random = _Random()
numpy.count_nonzero = lambda a: sum(1 for x in a.tolist() if x != 0)


def _array_equal(a, b):
    a = a if isinstance(a, SArr) else _array(a)
    b = b if isinstance(b, SArr) else _array(b)
    return tuple(a.shape) == tuple(b.shape) and all(x == y for x, y in zip(a.tolist(), b.tolist()))


numpy.array_equal = _array_equal
numpy.log = lambda x: x
numpy.exp = lambda x: x
numpy.interp = lambda x, xp, fp: 0.0
numpy.float32 = float32
numba.float64 = float64
numba.uint16 = uint16


# ---- fake shared memory -----------------------------------------------------------------------
SHM_REGISTRY = {}
SHM_EVENTS = []   # ("create"|"attach"|"close"|"unlink"|"view", name, ...)


class _BufSlice:
    def __init__(self, shm, start, stop):
        self.shm, self.start, self.stop = shm, start, stop


class _Buf:
    def __init__(self, shm):
        self.shm = shm

    def __getitem__(self, idx):
        if not isinstance(idx, slice):
            raise TypeError("shim: only slices of shm.buf are supported")
        start = 0 if idx.start is None else _ai(idx.start)
        stop = self.shm.size if idx.stop is None else _ai(idx.stop)
        return _BufSlice(self.shm, start, stop)


class SharedMemory:
    _n = 0

    def __init__(self, name=None, create=False, size=0):
        if create:
            SharedMemory._n += 1
            self.name = name or f"shm{SharedMemory._n}"
            self.size = _ai(size)
            if self.size <= 0:
                raise ValueError("'size' must be a positive number different from zero")
            self.store = {"regions": {}, "unlinked": False, "size": self.size}
            SHM_REGISTRY[self.name] = self.store
            SHM_EVENTS.append(("create", self.name, self.size))
        else:
            if name not in SHM_REGISTRY or SHM_REGISTRY[name]["unlinked"]:
                raise FileNotFoundError(name)
            self.name = name
            self.store = SHM_REGISTRY[name]
            self.size = self.store["size"]
            SHM_EVENTS.append(("attach", self.name))
        self.buf = _Buf(self)
        self.closed = False

    def close(self):
        self.closed = True
        SHM_EVENTS.append(("close", self.name, id(self)))

    def unlink(self):
        self.store["unlinked"] = True
        SHM_EVENTS.append(("unlink", self.name, id(self)))


def _frombuffer3(buf, dtype=float64, count=-1, offset=0):
    if isinstance(buf, (bytes, bytearray)):
        return SArr((len(buf),), dtype, list(buf))
    if count != -1 or offset != 0:
        if isinstance(buf, _Buf):
            buf = _BufSlice(buf.shm, 0, buf.shm.size)
        item = dtype.bits // 8
        start = buf.start + _ai(offset)
        stop = buf.stop if count == -1 else start + _ai(count) * item
        if stop > buf.stop:
            raise ValueError("buffer is smaller than requested size")
        buf = _BufSlice(buf.shm, start, stop)
    if isinstance(buf, _Buf):
        buf = _BufSlice(buf.shm, 0, buf.shm.size)
    if isinstance(buf, _BufSlice):
        nbytes = buf.stop - buf.start
        item = dtype.bits // 8
        SHM_EVENTS.append(("view", buf.shm.name, buf.start, buf.stop, dtype.__name__, id(buf.shm)))
        if nbytes % item:
            raise ValueError("buffer size must be a multiple of element size")
        regs = buf.shm.store.setdefault("region_list", [])
        store = None
        for (a, b, dn, st) in regs:
            if dn == dtype.__name__ and a == buf.start and b == buf.stop:
                store = st
                break
        if store is None:
            for (a, b, dn, st) in regs:
                # two different views of one block that share bytes would corrupt each other (the stand-in has no byte-level
                # memory): report it instead of silently giving them separate storage
                if a < buf.stop and buf.start < b and nbytes > 0 and b > a:
                    raise MemoryError(f"shim: overlapping shared-memory views [{a},{b}) {dn} and [{buf.start},{buf.stop}) {dtype.__name__}")
        if store is None:
            store = Sparse()
            regs.append((buf.start, buf.stop, dtype.__name__, store))
        return SArr((nbytes // item,), dtype, store)
    raise TypeError("frombuffer shim")


numpy.frombuffer = _frombuffer3
_shm_mod = _pytypes.ModuleType("multiprocessing.shared_memory")
_shm_mod.SharedMemory = SharedMemory


def _sleep(x):
    # the monitoring loop's clock: exit codes of processes with a delayed `visible_at` appear only after enough polls
    MP["clock"] = MP.get("clock", 0) + 1
    return None


class _Gc:
    @staticmethod
    def collect():
        return 0


# ---- fake multiprocessing (spawn context): synchronous processes, picklability enforced, scripted queue delivery ----
import pickle as _pickle
MP = {"assign": None, "exitcodes": {}, "events": [], "procs": [], "clock": 0}


class ShimHang(BaseException):
    """the modelled program would block forever (e.g. join() on a producer stuck on a full queue nobody reads)"""


class FakeQueue:
    def __init__(self, maxsize=0):
        self.items = []
        self.closed = False
        self.delivered = set()
        self.maxsize = maxsize

    def put(self, x):
        if self.closed:
            raise ValueError(f"Queue {self!r} is closed")
        self.items.append(x)

    def get(self):
        cur = MP.get("current")
        assign = MP.get("assign")
        if assign is not None and cur is not None and getattr(cur.target, "__name__", "") == "_worker" and self is cur.args[3]:
            # scripted delivery: item j (queue order) goes to worker assign[j]; afterwards the worker gets one poison pill
            wid = cur.args[0]
            for j, it in enumerate(self.items):
                if it is None:
                    continue
                if j < len(assign) and j not in self.delivered and assign[j] == wid:
                    self.delivered.add(j)
                    return it
            for j, it in enumerate(self.items):
                if it is None and j not in self.delivered:
                    self.delivered.add(j)
                    return None
            raise RuntimeError("shim: worker would block forever (no item and no pill left)")
        if not self.items:
            raise RuntimeError("shim: get() on an empty queue would block forever")
        return self.items.pop(0)

    def close(self):
        self.closed = True

    def __reduce__(self):
        return (_queue_by_id, (id(self),))


_QUEUES = {}


def _queue_by_id(i):
    return _QUEUES[i]


class FakeProcess:
    def __init__(self, target=None, args=(), kwargs=None):
        self.target, self.args, self.kwargs = target, args, kwargs or {}
        self._exitcode = None
        self.visible_at = 0      # how many times the parent finds the process still running before its exit status shows
        self._polls = 0
        self.joined = False
        self.started = False
        self.killed = False
        MP["procs"].append(self)

    def _blocked(self):
        """the queue filler is still inside put(): what it produced beyond the queue's capacity has not been taken out
        (the synchronous model has already run every started consumer to its end, so the backlog is final)"""
        if getattr(self.target, "__name__", "") != "_fill_queue" or MP.get("assign") is None:
            return False
        q = self.args[0]
        return bool(getattr(q, "maxsize", 0)) and len(q.items) - len(q.delivered) > q.maxsize

    @property
    def exitcode(self):
        if self._exitcode is None or self.joined or self.killed:
            return self._exitcode
        if self._blocked():
            return None
        # a process that finishes late: the first `visible_at` looks at its exit status still find it running
        if self._polls < self.visible_at:
            self._polls += 1
            return None
        return self._exitcode

    @exitcode.setter
    def exitcode(self, v):
        self._exitcode = v

    def start(self):
        # the spawn start method pickles the Process arguments: enforce that contract
        for a in self.args:
            if isinstance(a, FakeQueue):
                continue
            _pickle.dumps(a)
        _pickle.dumps(dict((k, v) for k, v in self.kwargs.items()))
        self.started = True
        MP["events"].append(("start", getattr(self.target, "__name__", "?")))
        sched = MP.get("scheduler")
        if sched is not None:
            sched(self)

    def run_now(self):
        prev = MP.get("current")
        MP["current"] = self
        try:
            self.target(*self.args, **self.kwargs)
            self.exitcode = 0
        except BaseException as e:  # a crashed child has a non-zero exit code
            if type(e).__name__ in ("IgnoreAttempt", "UnexploredPath", "CrossHairInternal", "NotDeterministic", "PathTimeout", "ShimHang"):
                raise
            self.exitcode = 1
            self.error = e
        finally:
            MP["current"] = prev

    def join(self, timeout=None):
        if self._exitcode is None and not self.killed:
            self.run_now()
        if not self.killed and self._blocked():
            q = self.args[0]
            raise ShimHang(f"join() on the queue filler: {len(q.items) - len(q.delivered)} entries unconsumed, capacity {q.maxsize}, no consumer left")
        self.joined = True

    def kill(self):
        self.killed = True
        if self._exitcode is None:
            self._exitcode = -9


class FakeContext:
    def Queue(self, maxsize=0):
        q = FakeQueue(maxsize)
        _QUEUES[id(q)] = q
        return q

    def Process(self, target=None, args=(), kwargs=None):
        return FakeProcess(target, args, kwargs)


def get_context(method=None):
    MP["events"].append(("get_context", method))
    return FakeContext()


def install_all():
    """numpy, numba, multiprocessing.shared_memory, time.sleep (no-op) and gc.collect (no-op)"""
    install()
    sys.modules["multiprocessing.shared_memory"] = _shm_mod


def load_helpers(repo="/repo"):
    """the real sketchnu/helpers.py with multiprocessing.get_context / Queue / sleep / psutil replaced"""
    import importlib.util
    m = _pytypes.ModuleType("sketchnu.helpers")
    sys.modules["sketchnu.helpers"] = m
    m.range = index_range
    m._shim_int = shim_int
    src = open(f"{repo}/sketchnu/helpers.py").read()
    src = src.replace("from multiprocessing import get_context, Queue", "get_context = None; Queue = None").replace("import psutil", "psutil = None")
    m.__file__ = f"{repo}/sketchnu/helpers.py"
    import ast as _ast

    class _F(_ast.NodeTransformer):
        """log/exception texts: every {expression} of an f-string is still EVALUATED (so an exception raised while
        building a message is kept) but not rendered -- rendering a symbolic number would force CrossHair to enumerate it"""
        def visit_JoinedStr(self, node):
            self.generic_visit(node)
            exprs = [v.value for v in node.values if isinstance(v, _ast.FormattedValue)]
            return _ast.copy_location(_ast.Call(func=_ast.Name(id="_shim_fmt", ctx=_ast.Load()), args=exprs, keywords=[]), node)
    tree = _F().visit(_ast.parse(src, filename=m.__file__))
    _ast.fix_missing_locations(tree)
    m._shim_fmt = lambda *a: "msg"
    exec(compile(tree, m.__file__, "exec"), m.__dict__)

    class _TD:
        def total_seconds(self):
            return 1.0

    class _DT:
        @staticmethod
        def now():
            return _DT()

        def __sub__(self, o):
            return _TD()
    m.datetime = _DT

    class _Logger:
        def debug(self, *a): pass
        info = warning = critical = error = fatal = debug

    class _Logging:
        @staticmethod
        def getLogger(name=None):
            return _Logger()
    m.logging = _Logging
    m.get_context = get_context
    m.Queue = FakeQueue
    m.sleep = _sleep
    m.gc = _Gc

    class _Ps:
        @staticmethod
        def cpu_count(logical=False):
            return 2
    m.psutil = _Ps
    return m


def shim_int(x=0, *a):
    """int(...) as called by the modules under test: int(np_scalar) must not go through CPython's exact-int check
    on a symbolic payload.  (Call sites `int(...)` are redirected here by a mechanical AST rewrite at load time; uses of
    the NAME int, e.g. in isinstance tuples, are untouched.)"""
    if isinstance(x, NPScalar):
        return x.v if not x.isfloat else _bi.int(x.v)
    return _bi.int(x, *a)


def index_range(*a):
    """CPython's range accepts __index__ objects; CrossHair's patched range does not: convert first"""
    return _bi.range(*[_ai(x) for x in a])


def load_sketchnu(repo="/repo", modules=("hashes", "countmin", "heavyhitters", "hyperloglog")):
    """import the REAL source files of sketchnu from `repo` in a process where numpy/numba/shared memory are the shims"""
    import importlib.util
    install_all()
    pkg = _pytypes.ModuleType("sketchnu")
    pkg.__path__ = []
    sys.modules["sketchnu"] = pkg
    out = {}
    consts = _pytypes.ModuleType("sketchnu.hll_constants")
    consts.sub_algorithm_threshold = [10 * (i + 1) for i in range(10)]
    consts.raw_estimate = SArr((10, 4), float64, [float(i) for i in range(40)])
    consts.bias_data = SArr((10, 4), float64, [float(100 + i) for i in range(40)])
    sys.modules["sketchnu.hll_constants"] = consts
    pkg.hll_constants = consts
    for name in modules:
        spec = importlib.util.spec_from_file_location("sketchnu." + name, f"{repo}/sketchnu/{name}.py")
        m = importlib.util.module_from_spec(spec)
        sys.modules["sketchnu." + name] = m
        m.range = index_range
        m._shim_int = shim_int
        m.sleep = _sleep
        import ast as _ast

        class _R(_ast.NodeTransformer):
            def visit_Call(self, node):
                self.generic_visit(node)
                if isinstance(node.func, _ast.Name) and node.func.id == "int":
                    node.func = _ast.copy_location(_ast.Name(id="_shim_int", ctx=_ast.Load()), node.func)
                return node
        src = open(f"{repo}/sketchnu/{name}.py").read()
        tree = _R().visit(_ast.parse(src, filename=f"{repo}/sketchnu/{name}.py"))
        _ast.fix_missing_locations(tree)
        m.__file__ = f"{repo}/sketchnu/{name}.py"
        exec(compile(tree, m.__file__, "exec"), m.__dict__)
        m.sleep = _sleep
        if hasattr(m, "gc"):
            m.gc = _Gc
        setattr(pkg, name, m)
        out[name] = m
    return out
