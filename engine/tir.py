"""Typed-IR capture: run numba's own front end + type inference on py_func, stop before rewrites/parfors."""
import warnings; warnings.filterwarnings("ignore")
import copy
from numba.core import compiler, types, ir
from numba.core.compiler import CompilerBase, DefaultPassBuilder, Flags
from numba.core.compiler_machinery import PassManager, FunctionPass, register_pass
from numba.core.untyped_passes import (TranslateByteCode, FixupArgs, IRProcessing, DeadBranchPrune,
    RewriteSemanticConstants, GenericRewrites, WithLifting, InlineClosureLikes, MakeFunctionToJitFunction,
    InlineInlinables, FindLiterallyCalls, LiteralUnroll, LiteralPropagationSubPipelinePass, ReconstructSSA, CanonicalizeLoopExit, CanonicalizeLoopEntry)
from numba.core.typed_passes import NopythonTypeInference, AnnotateTypes
from numba.core.registry import cpu_target

class _Stop(Exception):
    pass

CAPTURE = {}

@register_pass(mutates_CFG=False, analysis_only=True)
class Capture(FunctionPass):
    _name = "verif_capture"
    def __init__(self): FunctionPass.__init__(self)
    def run_pass(self, state):
        CAPTURE['last'] = dict(func_ir=state.func_ir, typemap=dict(state.typemap), calltypes=dict(state.calltypes),
                               return_type=state.return_type, args=state.args)
        raise _Stop()

class VerifCompiler(CompilerBase):
    def define_pipelines(self):
        pm = DefaultPassBuilder.define_untyped_pipeline(self.state)
        pm.add_pass(NopythonTypeInference, "nopython frontend")
        pm.add_pass(Capture, "capture")
        pm.finalize()
        return [pm]

def typed_ir(py_func, args, return_type=None):
    flags = Flags()
    flags.nrt = True
    flags.no_rewrites = True
    tyctx = cpu_target.typing_context; tgctx = cpu_target.target_context
    tyctx.refresh(); tgctx.refresh()
    try:
        compiler.compile_extra(tyctx, tgctx, py_func, args, return_type, flags, {}, pipeline_class=VerifCompiler)
    except Exception as e:
        # numba wraps exceptions
        if 'last' not in CAPTURE: raise
    r = CAPTURE.pop('last')
    return r

if __name__ == "__main__":
    import sys
    from sketchnu import hyperloglog as H, hashes, countmin as C, heavyhitters as HH
    mod = {'hashes':hashes,'H':H,'C':C,'HH':HH}[sys.argv[1]]
    fn = getattr(mod, sys.argv[2])
    sig = fn.nopython_signatures[0]
    r = typed_ir(fn.py_func, sig.args, sig.return_type)
    fir = r['func_ir']
    for lbl, blk in sorted(fir.blocks.items()):
        print("block", lbl)
        for st in blk.body:
            if isinstance(st, ir.Del): continue
            if isinstance(st, ir.Assign):
                v = st.value
                ct = r['calltypes'].get(v) if isinstance(v, ir.Expr) else None
                print("   ", st.target.name, "::", r['typemap'].get(st.target.name), "=", (v.op if isinstance(v, ir.Expr) else type(v).__name__), str(v)[:100], " SIG:", ct)
            else:
                print("   ", type(st).__name__, str(st)[:120], r['calltypes'].get(st))
