"""Boilerplate for checks decided entirely by engine W (CrossHair over harness modules)."""
import os
import sys
import time
from engine import common, wrun


def run(pid, name, bounds, explanation, encoded, extra_obs=None, technique=None):
    t0 = time.time()
    tier = common.get_tier()
    obs, meta = wrun.obligations(name, tier)
    if extra_obs:
        obs += extra_obs(tier)
    results = common.run_obligations(obs, progress=os.environ.get("VERIF_VERBOSE") == "1")
    funcs = set(encoded)
    for r in results:
        funcs.update(r.get("funcs") or [])
    b = dict(bounds)
    b["crosshair_conditions"] = meta["conditions"]
    return common.finish(
        pid, tier, "model_checking", obs, results, t0=t0, funcs=funcs, bounds=b,
        stubs=meta["stubs"], assumptions=meta["assumptions"], outside=meta["outside"], explanation=explanation,
        technique=technique or "CrossHair symbolic execution (z3) of the real Python methods under a shimmed numpy/numba/shared-memory/multiprocessing environment; every condition must be 'Confirmed over all paths'")
