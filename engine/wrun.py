"""engine W runner (CrossHair over the real class glue with the environment shimmed)."""
def obligations(name, tier):
    return [], {}
def replay_generic(cex):
    return {"reproduced": False, "how": "unknown cex kind"}
