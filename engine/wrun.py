"""Engine W runner: CrossHair (symbolic execution of Python with z3) over harness modules in checks/w_*.py that load
the REAL sketchnu sources under the shimmed environment (engine/shim/shims.py).  One CrossHair process per condition.
A condition passes only on 'Confirmed over all paths'; a counterexample is re-run against the real library by the
harness module's real_<name>() function before it is reported."""
import ast
import importlib
import os
import re
import subprocess
import sys
import time

ROOT = os.path.dirname(os.path.dirname(os.path.abspath(__file__)))
PY = sys.executable  # the overlay interpreter running this check (/verif/.venv/bin/python)

# check id -> list of (harness module, [function names] or None = every check_* function)
HARNESSES = {
    "c15": [("w_c15", None)],
    "c12": [("w_c12", None)],
    "c10": [("w_c10", None)],
    "c13": [("w_c13", None)],
    "c16": [("w_c16", None)],
    "c08": [("w_c08", ["check_fill_queue", "check_parallel_add_cms_w1", "check_parallel_add_cms_w2", "check_parallel_add_cms_w3", "check_parallel_add_cms_w4", "check_parallel_add_all", "check_parallel_add_all_w45", "check_parallel_records_only", "check_parallel_merging", "check_items_generator"])],
    "c04": [("w_c13", None), ("w_c12", ["check_add_value_hh", "check_update_dict_hh", "check_update_list_hh"])],
    "c03": [("w_c13", None), ("w_c12", ["check_add_value_hh", "check_update_dict_hh", "check_update_list_hh"])],
    "c18": [("w_c12", ["check_add_value_linear", "check_add_value_hh", "check_update_dict_linear", "check_update_dict_hh"]), ("w_c16", ["check_factory"])],
    "c19": [("w_c08", ["check_c19_callback_raises_w1", "check_c19_callback_raises_w2", "check_c19_dead_worker", "check_c19_dead_worker_late", "check_c19_dead_worker_backlog"])],
    "c01": [("w_c12", ["check_add_value_linear", "check_update_dict_linear", "check_update_list_linear", "check_ngram_linear"]), ("w_c15", ["check_linear"]), ("w_c16", ["check_linear"])],
    "c09": [("w_c15", ["check_linear", "check_log16", "check_log8"])],
    "c05": [("w_c12", ["check_add_value_linear", "check_add_value_log16", "check_add_value_log8"]), ("w_c16", ["check_linear", "check_log16", "check_log8"])],
    "c17": [("w_c17", None)],
    "c02": [("w_c17", ["check_query_current"]), ("w_c12", ["check_update_list_hll", "check_add_value_hll", "check_update_dict_hll", "check_ngram_hll"])],
    "c06": [("w_c12", ["check_add_value_log16", "check_add_value_log8", "check_ngram_log16", "check_ngram_log8", "check_log_ctor"])],
}


def harness_functions(mod):
    path = os.path.join(ROOT, "checks", mod + ".py")
    if not os.path.exists(path):
        return path, []
    tree = ast.parse(open(path).read())
    out = []
    for n in tree.body:
        if isinstance(n, ast.FunctionDef) and n.name.startswith("check_"):
            doc = ast.get_docstring(n) or ""
            if "post:" in doc:
                out.append((n.name, n.body[0].lineno if n.body else n.lineno + 1, doc))
    return path, out


_CALL_RE = re.compile(r"when calling (\w+)\((.*)\)(?: \(which returns (.*)\))?\s*$")


def parse_args(argstr):
    """'1, 2, x=3' -> ([1,2], {'x':3}) using the python parser"""
    try:
        node = ast.parse(f"f({argstr})", mode="eval").body
        args = [ast.literal_eval(a) for a in node.args]
        kwargs = {k.arg: ast.literal_eval(k.value) for k in node.keywords}
        return args, kwargs
    except Exception:
        return None, None


def run_condition(mod, fname, line, timeout_s, extra_env=None):
    path = os.path.join(ROOT, "checks", mod + ".py")
    env = dict(os.environ)
    env["PYTHONPATH"] = ROOT + os.pathsep + env.get("PYTHONPATH", "")
    env["W_MODE"] = "shim"
    env["PYTHONHASHSEED"] = "0"
    if extra_env:
        env.update(extra_env)
    cmd = [PY, "-m", "crosshair", "check", "--report_all", "--per_condition_timeout", str(timeout_s), f"{path}:{line}"]
    t = time.time()
    try:
        p = subprocess.run(cmd, cwd=ROOT, env=env, capture_output=True, text=True, timeout=timeout_s * 3 + 120)
        out, err, rc = p.stdout, p.stderr, p.returncode
    except subprocess.TimeoutExpired as e:
        out, err, rc = (e.stdout or ""), "hard timeout", 2
    dt = time.time() - t
    res = {"status": "unknown", "wall_s": round(dt, 2), "raw": (out or "")[-1500:], "stderr": (err or "")[-800:], "rc": rc}
    lines = [ln for ln in (out or "").splitlines() if ln.strip()]
    confirmed = any("Confirmed over all paths" in ln for ln in lines)
    errors = [ln for ln in lines if ": error:" in ln]
    if errors:
        e0 = errors[0].rstrip()
        if " (which returns " in e0:
            e0 = e0[:e0.rindex(" (which returns ")]
        m = _CALL_RE.search(e0)
        res["status"] = "cex"
        res["message"] = errors[0].split(": error:", 1)[1].strip()[:600]
        if m:
            a, kw = parse_args(m.group(2))
            res["args"], res["kwargs"] = a, kw
        return res
    if confirmed and not any("Not confirmed" in ln or "Unable to meet precondition" in ln for ln in lines):
        res["status"] = "proved"
        return res
    res["note"] = "; ".join(ln.split(": info:", 1)[-1].strip() for ln in lines)[:300] or (err or "")[-300:]
    return res


def ob_condition(mod, fname, line, timeout_s):
    """obligation body (runs in a forked child of the main runner): CrossHair, then replay on the real library"""
    r = run_condition(mod, fname, line, timeout_s)
    stats = {"queries": {"unsat": 1 if r["status"] == "proved" else 0, "sat": 1 if r["status"] == "cex" else 0, "unknown": 1 if r["status"] == "unknown" else 0},
             "solver_s": r["wall_s"], "digests": [f"{mod}.{fname}"],
             "samples": [{"obligation": f"crosshair check {mod}.py:{fname}", "result": r["status"], "solver_s": r["wall_s"], "crosshair_output": r["raw"][-300:]}]}
    base = {"stats": stats, "funcs": [f"checks/{mod}.py:{fname} (CrossHair over the real methods it calls)"]}
    if r["status"] == "proved":
        return dict(base, status="proved")
    if r["status"] == "unknown":
        return dict(base, status="unknown", note=f"CrossHair: {r.get('note')} {r.get('stderr', '')[-200:]}")
    cex = {"kind": "w", "module": mod, "function": fname, "args": r.get("args"), "kwargs": r.get("kwargs"), "message": r.get("message")}
    rp = replay_generic(cex)
    return dict(base, status="cex", cex=cex, replay=rp, finding_key=f"{mod}.{fname}" + (":" + str(rp.get("finding_key")) if rp.get("finding_key") else ""))


def ob_twin(mod, fname, line, timeout_s):
    """reachability twin: a deliberately false claim about the same harness path must be REFUTED by CrossHair"""
    r = run_condition(mod, fname, line, timeout_s)
    stats = {"queries": {"unsat": 0, "sat": 1 if r["status"] == "cex" else 0, "unknown": 0 if r["status"] == "cex" else 1}, "solver_s": r["wall_s"], "digests": [f"{mod}.{fname}"],
             "samples": [{"obligation": f"crosshair check {mod}.py:{fname} (twin: must be refuted)", "result": r["status"], "crosshair_output": r["raw"][-200:]}]}
    return {"status": "witness" if r["status"] == "cex" else "nowitness", "stats": stats, "note": None if r["status"] == "cex" else f"twin not refuted: {r['status']} {r.get('note')}"}


def replay_generic(cex):
    """run the harness module in REAL mode (real numpy/numba/sketchnu): real_<function>(*args) -> (ok, detail)"""
    if cex.get("kind") != "w" or cex.get("args") is None:
        return {"reproduced": False, "how": "counterexample arguments could not be parsed: " + str(cex.get("message"))[:200]}
    os.environ["W_MODE"] = "real"
    name = "checks." + cex["module"]
    if name in sys.modules:
        del sys.modules[name]
    mod = importlib.import_module(name)
    fn = getattr(mod, "real_" + cex["function"][len("check_"):], None)
    if fn is None:
        return {"reproduced": False, "how": f"no real_{cex['function'][6:]} replay function in {cex['module']}"}
    try:
        out = fn(*cex["args"], **(cex.get("kwargs") or {}))
    except Exception as e:  # a crash of the public API on the concrete input is itself an observation
        import traceback
        msg = str(cex.get("message") or "")
        tb = traceback.format_exc()
        # CrossHair's counterexample was "<ExcType>: ... when calling check_...": the real library raising the same
        # exception type on the same arguments, from inside sketchnu, reproduces it
        same = msg.startswith(type(e).__name__ + ":") and "/sketchnu/" in tb
        return {"reproduced": bool(same), "how": f"checks/{cex['module']}.py:real_{cex['function'][6:]}{tuple(cex['args'])} against the real library raised {type(e).__name__}: {e}"
                + (" -- the exception CrossHair predicted, raised inside the library" if same else ""), "trace": tb[-600:]}
    ok, detail = out[0], out[1]
    r = {"reproduced": not ok, "how": f"checks/{cex['module']}.py:real_{cex['function'][6:]}{tuple(cex['args'])} against the real library", "observed": str(detail)[:600]}
    if len(out) > 2 and out[2]:
        r["finding_key"] = out[2]
    return r


def obligations(name, tier):
    from engine import common
    tmo = 300 if tier == "quick" else 900
    obs = []
    meta = {"harnesses": [], "stubs": [], "assumptions": [], "outside": [], "conditions": 0}
    for mod, only in HARNESSES.get(name, []):
        path, fns = harness_functions(mod)
        if not fns:
            continue
        try:
            src = open(path).read()
            tree = ast.parse(src)
            for n in tree.body:
                if isinstance(n, ast.Assign) and len(n.targets) == 1 and isinstance(n.targets[0], ast.Name) and n.targets[0].id in ("W_STUBS", "W_ASSUMPTIONS", "W_OUTSIDE"):
                    meta[{"W_STUBS": "stubs", "W_ASSUMPTIONS": "assumptions", "W_OUTSIDE": "outside"}[n.targets[0].id]] += ast.literal_eval(n.value)
        except Exception:
            pass
        for fname, line, doc in fns:
            if only and fname not in only and not fname.startswith("check_twin"):
                continue
            if tier == "quick" and "tier: thorough" in doc:
                continue
            t = tmo
            mm = re.search(r"timeout: (\d+)", doc)
            if mm:
                t = int(mm.group(1)) * (1 if tier == "quick" else 4)
            if fname.startswith("check_twin"):
                obs.append(common.Ob(f"W twin {mod}.{fname}", ob_twin, (mod, fname, line, t), kind="witness", hard_s=t * 3 + 200))
                continue
            obs.append(common.Ob(f"W {mod}.{fname}", ob_condition, (mod, fname, line, t), hard_s=t * 3 + 200,
                                 bounds={"crosshair_condition": fname, "per_condition_timeout_s": t, "pre": [ln.strip() for ln in doc.splitlines() if ln.strip().startswith("pre:")]}))
            meta["conditions"] += 1
        meta["harnesses"].append(mod)
    return obs, meta
