#!/bin/bash
# Build the overlay interpreter used by every check: /venv's python + packages (numba, numpy, sketchnu's deps)
# plus z3-solver, crosshair-tool and cvc5 from the offline wheelhouse.  Idempotent; offline.
set -e
cd "$(dirname "$0")"
OV=/verif/.venv
if [ -x $OV/bin/python ] && $OV/bin/python -c "import z3, crosshair, numba, numpy" 2>/dev/null; then
  exit 0
fi
rm -rf $OV
/venv/bin/python -m venv $OV
SP=$($OV/bin/python -c "import sysconfig; print(sysconfig.get_paths()['purelib'])")
# make /venv's packages visible (a venv of a venv cannot use --system-site-packages)
echo "import site; site.addsitedir('/venv/lib/python3.12/site-packages')" > $SP/_venv_overlay.pth
PIP_NO_INDEX=1 $OV/bin/python -m pip install -q --no-index --find-links /opt/veriftools/wheels z3-solver crosshair-tool cvc5 jsonschema 2>&1 | tail -3
$OV/bin/python -c "import z3, crosshair, numba, numpy; print('overlay ok', z3.get_version_string(), numba.__version__, numpy.__version__)"
