#!/bin/bash
# tools/matrix.sh <out.tsv> <CHECK-ID>:<seeded-dir> ...   run checks against seeded mutants in scratch worktrees (never touches /repo)
cd "$(dirname "$0")/.."
OUT=$1; shift
run_one() {
  pair=$1; ID=${pair%%:*}; d=${pair#*:}; name=$(basename $d)
  wt=/tmp/mx-$ID-$name-$$
  git -C /repo worktree add -q --detach $wt HEAD || return
  P="$(realpath $d)/patch.diff"; [ -f "$(realpath $d)/patch_on_fixed_tree.diff" ] && P="$(realpath $d)/patch_on_fixed_tree.diff"
  if git -C $wt apply "$P" 2>/dev/null; then
    s=$(date +%s); out=$(VERIF_REPO=$wt VERIF_NPROC=${NPROC_EACH:-5} ./check $ID --tier ${TIER:-quick} --no-evidence 2>&1); rc=$?; e=$(date +%s)
    echo "$out" > /root/scratch/mxlogs/$ID-$name.log; echo -e "$ID\t$name\trc=$rc\tviol=$(echo "$out" | grep -c '^VIOLATION')\t$((e-s))s\t$(echo "$out" | grep -E "^$ID \[" | tail -1 | cut -c1-120)" >> $OUT
  else
    echo -e "$ID\t$name\tpatch-failed" >> $OUT
  fi
  git -C /repo worktree remove --force $wt
}
export -f run_one; export OUT TIER NPROC_EACH
printf "%s\n" "$@" | xargs -P ${PAR:-3} -I{} bash -c 'run_one {}'
