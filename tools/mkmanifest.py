#!/usr/bin/env python3
"""Regenerates MANIFEST.json from the table below (kept in one place so the manifest is always valid)."""
import json, os
HERE = os.path.dirname(os.path.dirname(os.path.abspath(__file__)))
TITLES = {}
for ln in open(os.path.join(HERE, "properties.jsonl")):
    p = json.loads(ln); TITLES[p["id"]] = p["title"]

K = "engine K (Numba typed IR -> z3)"
W = "engine W (CrossHair over the real class glue, environment shimmed)"
CLAIMED = {
 "C11": dict(engine=K, category="model_checking", design="6 C11",
   technique="symbolic execution of Numba typed IR + z3 (QF_UFBV then QF_BV) equivalence query against reference algorithm, per key length",
   text="For every key length 0..64 (quick) / 0..257 (thorough) z3 decides impl(bytes, seed) == published algorithm with all key bytes and the seed symbolic; "
        "bounded in key length only. The reference is pinned to the SMHasher verification constants. Right level: the tests sample 20 ASCII keys, the solver covers all 256^L x 2^64 inputs per length.",
   note="Trusted: Numba front end/type inference and that lowering preserves typed-IR semantics; little-endian host; z3. Lengths beyond the bound and runtime alignment are outside the claim."),

 "C01": dict(engine=K, category="model_checking", design="6 C01",
   technique="symbolic execution of Numba typed IR + z3 (QF_BV): inductive invariant with ghost true counts over one add/merge step, plus bounded unrolling of operation skeletons from empty sketches",
   text="The invariant LB/UB (= the property itself, stated over ghost true counts and per-cell totals) is proved inductive over the real _add_linear/_merge_linear kernels from an arbitrary table, which covers histories of any length and any merge tree at the listed shapes; _query_linear is proved to return the minimum of the key's counters. A bounded search over all operation skeletons (K=3 quick, 4-5 thorough; 2 sketches, 3 keys, symbolic columns and boundary multiplicities) finds real histories, replayed through the public API. Attached: the _add_ngram_linear call-trace obligations and CrossHair conditions on the real CountMinLinear.add/update/add_ngram/merge glue (multiplicity cap, a merge never rebinds or aliases the operands' arrays, also into an empty sketch). Thorough: deep shapes to 8x8 by decomposition (query spec + per-row cell-level spec + depth-independent row lemma).",
   note="Bounded in table shape (<= 3x3 quick, 4x4 + 2x8 thorough) and BMC depth; hash stubbed as uninterpreted columns (exact: the kernels use it only modulo width); wrapper glue (update/ngram/save/load) is decided under C12/C10."),
 "C02": dict(engine=K, category="model_checking", design="6 C02",
   technique="symbolic execution of Numba typed IR + z3 (QF_ABV): kernel == specification from an arbitrary register state (z3 Array, symbolic precision), algebraic laws on the kernel terms",
   text="_n_leading_zeros64 == clz for all 2^64 inputs; _add == the documented register update for symbolic p in 7..16, all hashes, seeds and register states; _merge == element-wise max (m=128 quick, to 512 thorough); adds commute/idempotent and merge/add commute on the kernels. Each lemma is an exact functional specification from an arbitrary state, so 'state = fold over distinct keys' follows by induction (prose). Counterexamples are replayed as real add/merge histories with crafted 8-byte keys (FastHash64 is invertible on one block). The property names the hash: the real fasthash64 kernel == FastHash64 reference for every key length 0..32 (0..129 thorough), all bytes and seeds, counterexamples replayed as HyperLogLog.add vs a python FastHash/clz oracle.",
   note="_merge beyond m=512 rests on loop uniformity; hash stubbed as an arbitrary 64-bit value per key in the register lemmas and decided separately per key length; wrappers under C12/C15."),
 "C05": dict(engine=K, category="model_checking", design="6 C05",
   technique="symbolic execution of Numba typed IR + z3 (QF_BV; QF_FPBV with uninterpreted pow for _log_counter): one add step from an arbitrary table, callee-contract decomposition for the log kernels",
   text="One step of the real add kernels from an arbitrary table with all cells, both keys' columns and the multiplicity symbolic: every clause of C05 for linear (all uint32 v) and for log16/log8 (all uint64 v, symbolic num_reserved) with _log_counter summarised by a contract that is itself proved against the real _log_counter (loop body with symbolic counter/num_reserved/base, plus configuration-concrete end-to-end unrollings). Counterexamples are replayed through the public API with the table and draws installed.",
   note="Bounded in shape; the composition 'v iterations of the proved loop body satisfy the contract' is an induction in prose; states are arbitrary tables (a superset of the reachable ones) installed through the documented public arrays in replays."),

 "C03": dict(engine=K, category="model_checking", design="6 C03",
   technique="symbolic execution of Numba typed IR + z3 (QF_UFBV): inductive invariant with an uninterpreted ghost count function over key identities, plus bounded histories with symbolic key bytes",
   text="Invariant 'every non-empty cell's count <= true count of the identity it stores' (identity = stored length + bytes, zero padding as representation invariant) is proved preserved by the real _add (key lengths 0..max_key_len+1, bytes symbolic) and _merge, and sufficient for _max_count(key) <= true count and 'never a key that was not added'. Bounded histories from empty sketches with symbolic key bytes (NUL bytes, aliases, over-long keys included by construction) find real counterexamples, replayed through add/merge/hh[key]/query(). Attached: heavy-hitter _add_ngram call traces (exactly the windows are added) and the CrossHair query conditions of C13 (every reported pair is a stored key with its own count, from the sketch's own current cache). This check found defect F1 (repaired in /repo commit ec85dfa). _merge leaves its argument untouched (exact fact, replayed on two real sketches); the add/update wrappers pass min(value, 2^32-1) unchanged (zero stays zero).",
   note="Bounded: max_key_len <= 3 (quick) / 4 (thorough), width,depth <= 2-3, K <= 4 operations; hash stubbed as columns; query()/candidate-set glue is decided under C13."),
 "C04": dict(engine=K, category="model_checking", design="6 C04",
   technique="symbolic execution of Numba typed IR + z3 (QF_BV + LIA glue): ghost-free Boyer-Moore potential lemmas per kernel step, linear-arithmetic glue to the invariant Phi >= 2f - W, plus bounded histories with symbolic key bytes",
   text="For a tracked identity y and its cell in every row: one _add(y,v) raises the potential by exactly v, one _add(z!=y,v) lowers it by at most v (only if z shares the cell), _merge is super-additive, and _max_count(y) >= any positive potential -- each proved on the real kernels from an arbitrary sketch absent 32-bit saturation; a linear-arithmetic query shows these imply hh[y] >= max_r(2f - W_r). Bounded histories (symbolic key bytes, 2 sketches, K <= 4) find real counterexamples incl. merge-order dependent ones. Attached: the CrossHair query conditions of C13 (completeness above the threshold, no stale or foreign candidate set).",
   note="Saturated cells excluded as the property states; bounded shapes/key lengths; 'query() contains the key / majority key first' additionally rests on C13's query lemmas and is judged directly in every replay."),

 "C09": dict(engine=K, category="model_checking", design="6 C09",
   technique="symbolic execution of Numba typed IR + z3: QF_BV cell-wise spec for linear; for log merges QF_FPBV facts plus a real-idealised (NRA + uninterpreted pow/log with instantiated algebraic laws) nearest-counter lemma, counterexamples confirmed by a real sweep of all counters",
   text="Linear: every cell == min(a+b, 2^32-1) for all counter pairs, argument untouched, bookkeeping summed, commutative, empty is identity, never below an input, merged estimate >= capped sum of estimates. Log16/log8: exact IEEE facts (argument untouched, bookkeeping, a+b exactly inside the reserved range) and, with floats idealised as reals and symbolic num_reserved/max_count/base, that the re-encoded counter brackets the decoded sum, is the nearer neighbour with ties down, equals the ceiling from max_count on, is never below an input, that empty is the identity and merge is commutative, with every float->int cast and integer addition shown in range. The idealised lemmas are also decided at pinned boundary counter pairs (ceiling/0 combinations), and each merge kernel runs on one large sparse table (1x8200 cells, 17 symbolic small counters around the multiples of 1024 and at both ends): every cell merged exactly once.",
   note="The nearest-counter lemma is in exact real arithmetic under the configuration invariant value(ceiling) == max_count; float rounding at exact decision boundaries is outside the claim. An idealised counterexample is reported only after a concrete witness is found on the real kernels (sweep of a row holding all counters against an independent decode-table oracle)."),

 "C18": dict(engine=K, category="model_checking", design="6 C18",
   technique="symbolic execution of Numba typed IR + z3 (QF_BV for linear/heavy hitters; QF_FPBV for _log_counter; NRA real-idealised with math-mode integers for log merges, _func and _find_base plumbing)",
   text="From arbitrary states incl. cells at any distance from the ceiling: no linear add/merge lowers an estimate, estimates at 2^32-1 stay, sums saturate; a heavy-hitter cell re-adding or merging its own key ends at min(sum, 2^32-1); _log_counter is monotone, never passes the ceiling and stays at it (symbolic counter/num_reserved/base); merged log counters are never below an input and reach the ceiling from max_count on (real-idealised); (decoded ceiling - max_count)*(b-1) == _func(b); _find_base calls _func/_funcprime on exactly the constructor's parameters (a narrowing cast shows up), every non-returning outcome raises ValueError, and the returning path carries the certificate |_func(returned base)| <= 1e-6*max_count*(base-1): every accepted configuration decodes its ceiling to max_count (relative 1e-6) whatever the Newton iteration did. This obligation found defect F4 on the pinned tree (fixed in /repo b4405f8).",
   note="Which configurations the constructor rejects is not claimed (only that accepted ones are right); floats idealised as reals in the certificate lemma; counterexamples are replayed on the real constructors over a grid that includes num_reserved up to the counter maximum."),

 "C17": dict(engine=K, category="model_checking", design="6 C17",
   technique="symbolic execution of Numba typed IR + z3 (real-idealised: LRA/NRA, uninterpreted log/pow, np.interp as an uninterpreted function of (x, tables) with its definition instantiated on demand, symbolic 3-knot tables, math-mode integers): result term == reference decision tree; shipped tables as solver constants",
   text="For all register arrays (m = 16 and 128 cells quick, 512 thorough; every cell symbolic), thresholds and alpha, the value returned by the real _query (with _linear_counting and _estimation_function inlined) equals the documented HLL++ decision tree built over the same uninterpreted log / 2**x / interp; the empty sketch gives exactly 0; every leaf is shown reachable. A structural counterexample is reported only after register arrays reproducing a numeric disagreement with an independent numpy rendering are found on real sketches (p in 7..16, one sketch reused per precision). Shipped-table facts are concrete data checks reported in the evidence. The (raw estimate, bias) tables are symbolic 3-knot functional arrays passed to the kernel; swapped tables or a hand-written interpolation that differs from np.interp (e.g. outside the table) are counterexamples. Shipped tables: every raw-estimate row strictly increasing, first knot corrects to the threshold (1%).",
   note="Floats idealised as reals (summation order immaterial); accuracy of np.log/np.interp/** outside the claim; table-row selection and alpha in __init__ are decided by the engine-W part. The numeric content of the shipped bias table is data the property takes as given."),
 "C12": dict(engine=K + " + " + W, category="model_checking", design="6 C12",
   technique="symbolic execution of Numba typed IR + z3 (call-trace equality for the ngram kernels, two-run state equality for multiplicity); CrossHair (z3) over the Python entry points with shimmed numpy/numba",
   text="All five _add_ngram* kernels: for key lengths 0..8 (12 thorough) with symbolic bytes and every ngram >= 1 (n < len concretely, n >= len symbolically up to 2^64-1) the inner adds recorded are exactly the sliding windows / the whole key, with multiplicity 1, on the sketch's own arrays and with the random pointer threaded through. Multiplicity: add(k,v+1) == add(k,v);add(k,1) from an arbitrary state for linear and heavy hitters (v symbolic); for log sketches add(k,2) == add(k,1);add(k,1) via a composition lemma on the real _log_counter (real-idealised) plus the add kernels with _log_counter abstracted. update()/update_ngram()/__getitem__/HyperLogLog ignoring values: CrossHair harnesses over the real methods.",
   note="ngram = 0 is outside the documented domain; general v follows from the v+1 lemma by induction (prose); W harnesses enumerate list/dict shapes up to 3 entries."),

 "C15": dict(engine=W, category="model_checking", design="6 C15",
   technique="CrossHair symbolic execution (z3) of the real merge() methods under a shimmed numpy/numba environment; every condition must be 'Confirmed over all paths'",
   text="All five classes: every constructor parameter of both operands symbolic over its documented range (width to 10^6, depth to 64, max_count < 2^64, num_reserved, p, seed < 2^64, heavy-hitter width to 10^5 with enumerated depth/max_key_len and symbolic or default phi), plus all ordered counter-type pairs: merge() raises TypeError exactly when a listed parameter differs; a refused merge reaches no kernel and leaves both operands' attributes and arrays unchanged; an accepted merge calls exactly the right kernel once with self's and other's arrays. Counterexamples are replayed on real sketches (with amplification to adjacent huge max_count values, which is what it takes for two log bases to coincide).",
   note="Kernels are call recorders here (their behaviour is C01/C02/C03/C09); the shims are an environment model validated by the replays; operands of unrelated types are outside."),

 "C10": dict(engine=W, category="model_checking", design="6 C10",
   technique="CrossHair symbolic execution (z3) of the real save()/load() methods against an in-memory dtype-preserving npz model; every condition must be 'Confirmed over all paths'",
   text="For all five classes at enumerated small shapes with symbolic non-shape parameters (seed and max_count to 2^64-1, num_reserved, phi default or any float in (0,1)), symbolic table cells and bookkeeping counters: loading a saved sketch through the class loader and through the module-level load yields the same class, parameters (incl. base, phi, seed), tables, n_added, n_records, and merges with the original; class loaders reject other counter types; HeavyHitters.load rebuilds its cache exactly once after the tables are copied. int->float64 conversions in the npz model round like IEEE above 2^53 (a seed saved as float is caught). This check found defect F3 (width-1 HeavyHitters could not be loaded; repaired in /repo b1c944d).",
   note="'Evolves identically' follows from equal state (kernels are functions of state and draws); the on-disk byte format, truncated files (C20) and real shared-memory loading are outside; the npz model is validated by replaying every counterexample through real files."),
 "C13": dict(engine=W + " + " + K, category="model_checking", design="6 C13",
   technique="CrossHair symbolic execution (z3) of the real query/generate_candidate_set/__getitem__ per enumerated alias pattern; symbolic execution of Numba typed IR + z3 for the 'mutators grow n_added or change nothing' lemma",
   text="Per stored-key alias pattern (distinct, same key in two rows, NUL-padded alias, empty key, all-NUL key, empty cell) with both counts and the threshold over all of uint32 and k in 1..3: at most k pairs, distinct keys, non-increasing counts, each count == hh[key] >= threshold, counts are a prefix of the unbounded answer, every stored key with hh[key] >= max(threshold,1) present. Freshness: lemma A (second query after any threshold pair, explicit or default, with or without growth, equals a cache-free sketch's answer), lemma B (kernels: an add/merge either strictly increases n_added or leaves the tables alone; counts <= n_added is invariant), lemma C (load rebuilds the cache, in C10). Also: generate_candidate_set() without an argument (what load does) followed by query(k, None), for (phi, n_added) pairs with a fractional product and symbolic counts.",
   note="Width 1 / depth 2 / max_key_len 2 only (scan loops uniform); Counter.most_common trusted; thresholds >= 2^32 and n_added wrap-around outside."),

 "C16": dict(engine=W, category="model_checking", design="6 C16",
   technique="CrossHair symbolic execution (z3) of the real __init__(shared_memory=True)/attach_existing_shm/attach_shared_memory/__del__ with a recording SharedMemory stand-in; symbolic width",
   text="Decidable part only: for all five classes with symbolic width (to 10^5), enumerated depth/max_key_len and symbolic other parameters, the byte ranges and dtypes viewed by the owner, by attach_existing_shm and by helpers.attach_shared_memory are identical, tile the block without overlap and end at its size; the bookkeeping view has 2 entries; writes through one handle are read through the other; a sketch rebuilt from owner.args has the owner's parameters (a truncated seed in .args is caught); the owner's __del__ closes and unlinks, a view's only closes. Counterexamples are replayed with real shared memory: owner, attached view and an in-memory twin under interleaved operations, then deletion orders.",
   note="The operating system's shared memory, cross-process visibility and /dev/shm are outside; given identical views of one buffer, behavioural equality is inherited from the kernels being functions of the arrays."),
 "C08": dict(engine=W, category="model_checking", design="6 C08",
   technique="CrossHair symbolic execution (z3) of the real helpers glue under a synchronous 'spawn' context with a symbolic item-to-worker assignment and pickled Process arguments",
   text="Real _fill_queue, _worker, _merge_worker, parallel_merging, parallel_add: for 1..3 workers (4 thorough; parallel_merging alone 1..9) and every assignment of the items to workers (symbolic), symbolic callback returns, and all three sketch kinds together: every item reaches the callback exactly once, its adds land in the assigned worker's block, every worker's block of every kind is merged exactly once into the returned sketch (odd carry included), n_records is the sum of returns, one pill per worker. With the merge lemmas of C01/C02/C03/C04/C09 this gives the sequential result. The 'items may be a generator' clause is a recorded known finding (F2). The merge-kernel contracts the glue model relies on (cells merged per the kernel's law, bookkeeping summed, argument untouched; heavy-hitter histories with a merge) are discharged in this check too by symbolic execution of the Numba typed IR at small shapes.",
   note="Assumes mp.Queue's exactly-once delivery and that the fake context's scheduling covers the real one's observable orders; OS scheduling, real spawn and cross-process memory coherence are outside (the replays do run real spawned processes)."),
 "C19": dict(engine=W, category="model_checking", design="6 C19",
   technique="CrossHair symbolic execution (z3) of the real _worker loop and parallel_add monitor under the synchronous context with symbolic per-item failure flags and a symbolic exit code; symbolic per-worker delay before an exit status becomes observable; bounded work queue with a blocked-filler (hang) model",
   text="Per item a symbolic flag (callback fine / raises before touching the sketches / raises after updating them, incl. exceptions without arguments): parallel_add still terminates, every item is offered once, all non-failing items' contributions are in the result and n_records counts only successful items. A worker with any non-zero exit status (-15..255, symbolic) makes parallel_add end with an exception instead of returning. Counterexamples replayed with real spawned processes (raising callbacks; a worker that os._exit()s / kills itself). Late death: each worker's exit status becomes observable only at the parent's v_i-th look (v_i symbolic 0..2), still an exception. Backlog: with the queue's capacity 3*n_workers modelled, a dead consumer while the filler still has more to put must end in an exception, not in a join() that never returns (modelled hang); replayed on the real library under a process-group watchdog.",
   note="Real signals, OOM kills and scheduling beyond the modelled delay/backlog parameters are outside; the dead-worker guarantee in the pinned code is incidental (a later put on a closed queue raises) and is accepted as 'terminates with an exception'."),

 "C14": dict(engine=K, category="model_checking", design="6 C14 and 7",
   technique="symbolic execution of Numba typed IR + z3: seed-term distinctness over a symbolic width in every placing kernel; satisfiability witnesses (separating key pairs, joint coverage of column pairs) over the real placement kernels with the real FastHash inlined (QF_BV, precise multiplication); byte-sensitivity with uninterpreted multiplication",
   text="REDUCED CLAIM: the exp(-depth) bound itself is a statement about FastHash's output distribution and is not decided. Decided necessary conditions: (1) in all eight placing kernels (count-min query/add for the three counter types, heavy hitters _add/_max_count) at depth 8 the column of row r is fasthash64(key, s_r) % width with the seed terms pairwise distinct for every width (symbolic) -- e.g. seeding every row identically or mixing the width into the seed is caught; (2) on the real fasthash64 with precise 64-bit multiplication the solver exhibits, for row pairs and widths, 8-byte keys that collide in one row but not the other (unsat would mean functionally dependent rows). (3) every byte of keys of the listed lengths (1..17, 24, 31..33, 63..65, 127..129, 255..257, 264) influences the hash; (4) every pair (column in row a, column in row b) at widths 8/13/16 is owned by some key; conditions (2) and (4) run the real placement kernels and read the columns from `buckets`.",
   note="Not a statistical independence result: necessary conditions only."),
 "C06": dict(engine=K + " + " + W, category="model_checking", design="6 C06",
   technique="symbolic execution of Numba typed IR + z3 (QF_BV with callee contract; QF_FPBV lemma on _log_counter; NRA real-idealised lemmas with instantiated pow laws; functional arrays for _rand); CrossHair for the class glue",
   text="Lower bound min(true, num_reserved+1) as an inductive invariant through _add_log16/_add_log8 (all v, symbolic num_reserved, arbitrary tables, _log_counter by contract) and through merges (idealised); _log_counter's contract incl. 'increment iff draw < base**-(c-num_reserved)', one draw per probabilistic step, none in the reserved range (IEEE mode, symbolic counter/num_reserved/base); _counter2value == documented formula and one-step unbiasedness P(advance)*delta == 1 (exact real arithmetic); _rand returns batch[ptr], ptr+1 below 2048 and replaces the whole 2048-entry batch with fresh draws at 2048 (functional array, symbolic pointer); ngram kernels and add()/add_ngram() thread the pointer (no draw reused). Multiplicities up to 2^41 (a narrowed kernel parameter is a counterexample, replayed with the model's multiplicity under a time limit); _rand with slice updates as array lambdas: after a refill every slot holds a fresh draw. The pool generator of a new log sketch is seeded from OS entropy, directly or through an integer drawn from a range of at least 2^32 values and handed on unchanged.",
   note="Not decided: agreement with the exact Markov-chain distribution, quality of numpy's generator, float rounding of base**x; 'probability of draw < t is t' is the one probabilistic axiom."),
}
NA = {}
ALL = sorted(TITLES)
for pid in ALL:
    if pid not in CLAIMED and pid not in NA:
        NA[pid] = "check not built yet in this revision (planned, see DESIGN.md section 6)"
NA_FIXED = {
 "C07": "probabilistic accuracy envelope over random key sets (a statement about FastHash's output distribution and the empirical bias tables); nothing finite and symbolic encodes it. Its deterministic ingredients are decided under C02 and C17.",
 "C20": "decided by numpy.lib.npyio + zipfile + CRC over file I/O (C code); a symbolic prefix length is realised at the first read, leaving plain enumeration of byte offsets, which is a different technique.",
}
for k, v in NA_FIXED.items():
    if k not in CLAIMED: NA[k] = v

checks = []
for pid in sorted(CLAIMED):
    c = CLAIMED[pid]
    checks.append({
        "property_id": pid,
        "quick_cmd": f"./check {pid} --tier quick",
        "thorough_cmd": f"./check {pid} --tier thorough",
        "evidence_file": f"/verif/evidence/{pid}.json",
        "replay_cmd_template": f"./check {pid} --replay {{path}}" if c.get("replay") else f"/verif/.venv/bin/python tools/replay.py {{path}}",
        "engine": c["engine"],
        "level_claimed": {"category": c["category"], "text": c["text"], "design_ref": "DESIGN.md section " + c["design"]},
        "level_note": c["note"],
        "technique": c["technique"],
    })
man = {
 "version": 1,
 "setup_cmd": "bash ./setup.sh",
 "hooks": {"guard": "SKETCHNU_VERIF", "enable": "none needed: the engines read /repo's source and Numba IR from outside; no hook commits exist",
           "baseline_off_cmd": "cd /repo && /venv/bin/python -m pytest -ra -q -p no:cacheprovider --timeout=900 --continue-on-collection-errors",
           "source_commits": [], "add_only": True},
 "engines": [
   {"name": "K", "path": "engine/nbsym.py", "serves_properties": [p for p in sorted(CLAIMED) if CLAIMED[p]["engine"] == K],
    "kind_free_text": "symbolic interpreter of Numba's typed IR (captured from /repo's kernels on every run) producing z3 terms; obligations decided by z3"},
   {"name": "W", "path": "engine/shim/", "serves_properties": [p for p in sorted(CLAIMED) if CLAIMED[p]["engine"] == W],
    "kind_free_text": "CrossHair symbolic execution of sketchnu's real Python class glue with numpy/numba/shared_memory/multiprocessing replaced by pure-Python stand-ins"},
 ],
 "checks": checks,
 "not_applicable": [{"property_id": k, "reason": NA[k]} for k in sorted(NA)],
 "notes": "Exit codes of every check: 0 held within the stated bounds; 1 violation (solver counterexample replayed on the real jitted code); 2 inconclusive/harness error (never with a VIOLATION line).",
}
json.dump(man, open(os.path.join(HERE, "MANIFEST.json"), "w"), indent=1)
print("claimed", sorted(CLAIMED), "n/a", sorted(NA))
