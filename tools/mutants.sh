#!/bin/bash
# tools/mutants.sh <CHECK-ID> <seeded-dir>... : apply each seeded patch to /repo, run the quick check, undo; print verdicts
cd "$(dirname "$0")/.."
ID=$1; shift
for d in "$@"; do
  git -C /repo diff --quiet || { echo "/repo not clean"; exit 3; }
  P="$(realpath $d)/patch.diff"; [ -f "$(realpath $d)/patch_on_fixed_tree.diff" ] && P="$(realpath $d)/patch_on_fixed_tree.diff"; git -C /repo apply "$P" || { echo "$d: patch failed"; continue; }
  s=$(date +%s); out=$(./check $ID --tier ${TIER:-quick} 2>&1); rc=$?; e=$(date +%s)
  git -C /repo checkout -- .
  echo "$ID on $(basename $d): rc=$rc $((e-s))s nviol=$(echo "$out" | grep -c '^VIOLATION') :: $(echo "$out" | grep -E "^$ID \[" | tail -1 | cut -c1-160)"
  [ $rc -eq 2 ] && echo "$out" | grep INCONCLUSIVE | head -3 | cut -c1-300
done
