#!/usr/bin/env python3
"""Replay a counterexample file written by a check against the real code in /repo.
usage: /verif/.venv/bin/python tools/replay.py replays/<id>-<digest>.json   (exit 1 if it reproduces)"""
import importlib, json, os, sys, warnings
warnings.filterwarnings("ignore")
HERE = os.path.dirname(os.path.dirname(os.path.abspath(__file__)))
sys.path.insert(0, HERE); sys.path.insert(1, os.environ.get("VERIF_REPO", "/repo"))
d = json.load(open(sys.argv[1]))
mod = importlib.import_module("checks." + d["property"].lower())
r = mod.replay(d["cex"])
print(json.dumps(r, indent=1, default=str))
if r.get("reproduced"):
    print(f"VIOLATION property={d['property']} replay={os.path.abspath(sys.argv[1])}")
    sys.exit(1)
