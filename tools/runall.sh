#!/bin/bash
# run every claimed check's quick (or given tier) command sequentially; print a one-line summary each
cd "$(dirname "$0")/.."
TIER=${1:-quick}; shift
IDS=${@:-$(python3 -c "import json;print(' '.join(c['property_id'] for c in json.load(open('MANIFEST.json'))['checks']))")}
for id in $IDS; do
  s=$(date +%s); out=$(./check $id --tier $TIER 2>&1); rc=$?; e=$(date +%s)
  echo "$id rc=$rc $((e-s))s :: $(echo "$out" | grep -E "^$id \[" | tail -1)"
  [ $rc -ne 0 ] && echo "$out" | grep -E "VIOLATION|INCONCLUSIVE|KNOWN" | head -5
done
